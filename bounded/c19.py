"""C19 run-time channel (the deciding check for C19: pickle's behaviour is an external contract): save / load round trip.

Scope: 4 model kinds x metrics (all 47 in the thorough tier, 8 representative in the quick tier) x {on-the-fly,
pre-computed} x seeded data (n <= 12), loaded into a fresh model of the same kind constructed with DEFAULT options.
"""
import json
import os
import pickle
import random

import numpy as np

from . import common


def state(m):
    sg = m.subgraph
    nodes = [(n.idx, n.label, n.predicted_label, n.cluster_label, n.features.tobytes(), float(n.cost), float(n.density),
              float(n.radius), n.n_plateaus, [float(a) for a in n.adjacency], n.root, n.status, n.pred, n.relevant)
             for n in sg.nodes]
    extra = tuple(getattr(sg, k, None) for k in ("n_clusters", "best_k", "constant", "density", "min_density", "max_density"))
    pd = None if m.pre_distances is None else m.pre_distances.tobytes()
    return (type(sg).__name__, nodes, list(sg.idx_nodes), sg.trained, sg.n_features, extra, m.distance, m.pre_computed_distance,
            pd, getattr(m, "max_k", None), getattr(m, "min_k", None))


def run_case(case):
    from opfython.models.supervised import SupervisedOPF
    from opfython.models.semi_supervised import SemiSupervisedOPF
    from opfython.models.knn_supervised import KNNSupervisedOPF
    from opfython.models.unsupervised import UnsupervisedOPF
    import opfython.math.distance as d
    rng = random.Random(case["seed"])
    n = case["n"]
    X = np.asarray([[round(rng.uniform(0.2, 3), 4) for _ in range(2)] for _ in range(n)])
    Y = np.asarray([i % 2 for i in range(n)])
    Q = np.asarray([[round(rng.uniform(0.2, 3), 4) for _ in range(2)] for _ in range(5)])
    metric, kind, pre = case["metric"], case["kind"], case["pre"]
    mk = {"sup": lambda **kw: SupervisedOPF(**kw), "semi": lambda **kw: SemiSupervisedOPF(**kw),
          "knn": lambda **kw: KNNSupervisedOPF(max_k=2, **kw), "unsup": lambda **kw: UnsupervisedOPF(min_k=1, max_k=2, **kw)}[kind]
    m = mk(distance=metric)
    I, IQ = None, None
    if pre:
        A = np.vstack([X, Q])
        fn = d.DISTANCES[metric]
        M = np.asarray([[float(fn(A[a].copy(), A[b].copy())) for b in range(len(A))] for a in range(len(A))])
        m.pre_computed_distance = True
        m.pre_distances = M
        I, IQ = np.arange(n), np.arange(n, n + len(Q))
    if kind == "sup":
        m.fit(X.copy(), Y.copy(), I)
    elif kind == "semi":
        m.fit(X[:n - 2].copy(), Y[:n - 2].copy(), X[n - 2:].copy(), None if I is None else I[:n - 2])
    elif kind == "knn":
        if pre:
            return None       # the KNN model needs an n x n matrix of the training set only; covered without pre-computation
        m.fit(X[:n - 3].copy(), Y[:n - 3].copy(), X[n - 3:].copy(), Y[n - 3:].copy())
    else:
        m.fit(X.copy(), Y.copy(), I)
    before = state(m)
    p0 = m.predict(Q.copy(), IQ) if pre else m.predict(Q.copy())
    before_after_predict = state(m)
    path = os.path.join(os.getcwd(), "c19_%d.pkl" % os.getpid())
    try:
        m.save(path)
        if state(m) != before_after_predict:
            return {"error": "save altered the original model", "props": ["C19"]}
        fresh = {"sup": SupervisedOPF, "semi": SemiSupervisedOPF, "knn": KNNSupervisedOPF, "unsup": UnsupervisedOPF}[kind]()
        fresh.load(path)
    finally:
        try:
            os.remove(path)
        except OSError:
            pass
    if state(fresh) != before_after_predict:
        return {"error": "forest state of the re-loaded model differs from the original", "props": ["C19"]}
    if fresh.distance_fn is not d.DISTANCES[metric] and getattr(fresh.distance_fn, "__name__", 1) != getattr(d.DISTANCES[metric], "__name__", 2):
        return {"error": "re-loaded model computes a different metric than `%s`" % metric, "props": ["C19"]}
    p1 = fresh.predict(Q.copy(), IQ) if pre else fresh.predict(Q.copy())
    p2 = m.predict(Q.copy(), IQ) if pre else m.predict(Q.copy())
    if repr(p1) != repr(p2) or repr(p1) != repr(p0):
        return {"error": "predictions differ after save/load: %r vs %r" % (p1, p2), "props": ["C19"]}
    return None


def explore(tier="quick", prop="C19"):
    common.setup()
    from specs.metrics import METRICS
    rng = random.Random(common.seed() * 17 + 2)
    metrics = sorted(METRICS) if tier == "thorough" else ["log_squared_euclidean", "euclidean", "manhattan", "canberra",
                                                         "chebyshev", "kullback_leibler", "jaccard", "cosine"]
    stats = {"evaluations": 0, "distinct_nontrivial": 0, "samples": []}
    failure = None
    for metric in metrics:
        for kind in ("sup", "semi", "knn", "unsup"):
            for pre in (False, True):
                case = {"metric": metric, "kind": kind, "pre": pre, "n": rng.randint(8, 12), "seed": rng.randrange(10 ** 6)}
                try:
                    res = run_case(case)
                except Exception as ex:
                    import traceback
                    res = {"error": "%s: %s" % (type(ex).__name__, ex), "trace": traceback.format_exc()[-600:], "props": ["C19"]}
                stats["evaluations"] += 1
                stats["distinct_nontrivial"] += 1
                if len(stats["samples"]) < 3:
                    stats["samples"].append(case)
                if res:
                    failure = {"kind": "c19-case", "case": case, "observed": res}
                    break
            if failure:
                break
        if failure:
            break
    stats["rule"] = ("fit, predict, save, load into a default-constructed model of the same kind; complete node / subgraph / model "
                     "state, the bound metric and predictions on a probe batch must coincide, the original must be unchanged; "
                     "4 kinds x %d metrics x {on-the-fly, pre-computed}; every case distinct" % len(metrics))
    return stats, failure


def replay(rec):
    common.setup()
    return run_case(rec["case"])


if __name__ == "__main__":
    import time
    t = time.time()
    st, f = explore("quick")
    print({k: v for k, v in st.items() if k not in ("samples", "rule")}, "failure:", json.dumps(f)[:700] if f else None, round(time.time() - t, 1))
