"""C10 run-time channel: training / predicting through a distance file written by pre_compute_distance must equal
computing the metric on the fly (supervised, semi-supervised, unsupervised; .txt and .csv), and get_distances must
report the metric on every ordered pair (min-max rescaled when asked).

Scope: 8..14 samples, dim 2, random train/test index splits, metrics incl. asymmetric ones (kullback_leibler, neyman,
pearson, k_divergence) on positive data and euclidean-family on general data, both file formats, k <= 3.
"""
import json
import os
import random

import numpy as np

from . import common


def node_state(m):
    return [(float(n.cost), int(n.pred), int(n.status), int(n.predicted_label), int(n.cluster_label), int(n.root))
            for n in m.subgraph.nodes]


def run_case(case, semi_layout=None):
    import opfython.math.general as g
    import opfython.math.distance as d
    from opfython.models.supervised import SupervisedOPF
    from opfython.models.semi_supervised import SemiSupervisedOPF
    from opfython.models.unsupervised import UnsupervisedOPF
    A = np.asarray(case["A"], dtype=float)
    # the statement quantifies over ALL datasets: feature arrays of other dtypes included (single precision, integers)
    dt = case.get("dtype", "float64")
    if dt == "float32":
        A = A.astype(np.float32)
    elif dt == "int64":
        A = np.rint(A * 3).astype(np.int64) + 1
    Y = np.asarray(case["Y"], dtype=int)
    I_tr, I_te = np.asarray(case["I_train"], dtype=int), np.asarray(case["I_test"], dtype=int)
    metric, ext = case["metric"], case["ext"]
    path = os.path.join(os.getcwd(), "c10_dist_%d.%s" % (os.getpid(), ext))
    try:
        g.pre_compute_distance(A.copy(), path, metric)
        fn = d.DISTANCES[metric]
        kind = case["model"]
        if kind == "file":
            from opfython.core.opf import OPF
            o = OPF(distance=metric, pre_computed_distance=path)
            M = o.pre_distances
            for a in range(len(A)):
                for b in range(len(A)):
                    want = float(fn(A[a].copy(), A[b].copy()))
                    if M[a][b] != want:
                        return {"error": "file entry (%d,%d) = %r but metric(x%d, x%d) = %r" % (a, b, M[a][b], a, b, want),
                                "props": ["C10"]}
            return None
        Xtr, Ytr, Xte = A[I_tr], Y[I_tr], A[I_te]
        if kind == "sup":
            f, p = SupervisedOPF(distance=metric), SupervisedOPF(distance=metric, pre_computed_distance=path)
            f.fit(Xtr.copy(), Ytr.copy())
            p.fit(Xtr.copy(), Ytr.copy(), I_tr)
            if node_state(f) != node_state(p) or list(f.subgraph.idx_nodes) != list(p.subgraph.idx_nodes):
                return {"error": "supervised forests differ between on-the-fly and pre-computed distances", "props": ["C10"]}
            a, b = f.predict(Xte.copy()), p.predict(Xte.copy(), I_te)
            if list(a) != list(b):
                return {"error": "supervised predictions differ: %s vs %s" % (list(a), list(b)), "props": ["C10"]}
            G = f.get_distances()
            for i in range(len(Xtr)):
                for j in range(len(Xtr)):
                    if G[i][j] != float(fn(Xtr[i].copy(), Xtr[j].copy())):
                        return {"error": "get_distances()[%d][%d] differs from the metric" % (i, j), "props": ["C10"]}
            Gn = f.get_distances(normalize=True)
            lo, hi = G.min(), G.max()
            if hi > lo and not np.allclose(Gn, (G - lo) / (hi - lo), rtol=0, atol=0):
                return {"error": "normalised distance matrix is not the min-max rescaling", "props": ["C10"]}
        elif kind == "unsup":
            k = case["k"]
            f = UnsupervisedOPF(min_k=1, max_k=k, distance=metric)
            p = UnsupervisedOPF(min_k=1, max_k=k, distance=metric, pre_computed_distance=path)
            f.fit(Xtr.copy())
            p.fit(Xtr.copy(), None, I_tr)
            if node_state(f) != node_state(p) or f.subgraph.best_k != p.subgraph.best_k:
                return {"error": "unsupervised clusterings differ between on-the-fly and pre-computed distances", "props": ["C10"]}
            a, b = f.predict(Xte.copy()), p.predict(Xte.copy(), I_te)
            if list(a[0]) != list(b[0]) or list(a[1]) != list(b[1]):
                return {"error": "unsupervised predictions differ", "props": ["C10"]}
        elif kind == "semi":
            nl = max(2, len(I_tr) // 2)
            if semi_layout == "contiguous":
                # the only layout the API can express: labelled rows 0..nl-1 followed by the unlabeled rows
                order = list(range(len(A)))
                L, U = order[:nl], order[nl:nl + 3]
            else:
                L, U = list(I_tr[:nl]), list(I_tr[nl:])
            if len(set(Y[L].tolist())) < 2 or not len(U):
                return None
            f = SemiSupervisedOPF(distance=metric)
            p = SemiSupervisedOPF(distance=metric, pre_computed_distance=path)
            f.fit(A[L].copy(), Y[L].copy(), A[U].copy())
            p.fit(A[L].copy(), Y[L].copy(), A[U].copy(), np.asarray(L))
            if node_state(f) != node_state(p):
                res = {"error": "semi-supervised forests differ between on-the-fly and pre-computed distances", "props": ["C10"]}
                if semi_layout != "contiguous":
                    res["signature"] = "semi:positional-idx"
                return res
        return None
    finally:
        try:
            os.remove(path)
        except OSError:
            pass


def gen(rng):
    n = rng.randint(8, 14)
    asym = rng.random() < 0.4
    if asym:
        metric = rng.choice(["kullback_leibler", "neyman", "pearson", "k_divergence"])
        A = [[round(rng.uniform(0.2, 3), 4) for _ in range(2)] for _ in range(n)]
    else:
        metric = rng.choice(["euclidean", "log_squared_euclidean", "manhattan", "canberra", "chebyshev"])
        A = [[round(rng.uniform(0.1, 4), 4) for _ in range(2)] for _ in range(n)]
    Y = [i % 2 for i in range(n)]
    rng.shuffle(Y)
    rows = list(range(n))
    rng.shuffle(rows)
    ntr = rng.randint(5, n - 2)
    I_tr, I_te = rows[:ntr], rows[ntr:]
    if len(set(Y[i] for i in I_tr)) < 2:
        Y[I_tr[0]], Y[I_tr[1]] = 0, 1
    case = {"A": A, "Y": Y, "I_train": I_tr, "I_test": I_te, "metric": metric, "ext": rng.choice(["txt", "csv"]),
            "model": rng.choice(["file", "sup", "sup", "unsup", "semi"]), "k": rng.randint(1, 3)}
    case["dtype"] = rng.choice(["float64", "float64", "float32", "int64"])
    return case


def explore(tier="quick", prop="C10"):
    common.setup()
    rng = random.Random(common.seed() * 59 + 4)
    stats = {"evaluations": 0, "distinct_nontrivial": 0, "samples": [], "findings": []}
    failure = None
    for _ in range(150 if tier == "quick" else 1500):
        case = gen(rng)
        try:
            res = run_case(case, semi_layout="contiguous")
        except Exception as ex:
            import traceback
            res = {"error": "%s: %s" % (type(ex).__name__, ex), "trace": traceback.format_exc()[-600:], "props": ["C10"]}
        stats["evaluations"] += 1
        stats["distinct_nontrivial"] += 1
        if len(stats["samples"]) < 2:
            stats["samples"].append({k: case[k] for k in ("metric", "ext", "model", "I_train", "I_test")})
        if res:
            failure = {"kind": "c10-case", "case": case, "observed": res}
            break
    # known gap: unlabeled samples of the semi-supervised model get positional indices
    if failure is None:
        r2 = random.Random(7)
        for _ in range(40):
            case = gen(r2)
            case["model"] = "semi"
            try:
                res = run_case(case, semi_layout="scattered")
            except Exception as ex:
                res = {"error": "%s: %s" % (type(ex).__name__, ex), "signature": "semi:positional-idx"}
            if res and res.get("signature") == "semi:positional-idx":
                stats["findings"] = [{"signature": "semi:positional-idx",
                                      "what": "SemiSupervisedOPF with pre-computed distances: unlabeled sample i gets idx = "
                                              "n_labeled + i instead of its dataset row, so the distance file is read at the "
                                              "wrong rows unless the dataset is laid out labelled-first with I_train = 0..n-1"}]
                break
    stats["rule"] = ("datasets of 8..14 samples written by the real pre_compute_distance to .txt/.csv and read back by the "
                     "models; forests, clusterings, predictions and get_distances compared with the on-the-fly runs for "
                     "symmetric and asymmetric metrics with shuffled train/test index sets; feature arrays of dtype float64, "
                     "float32 and int64; every case non-trivial")
    return stats, failure


def replay(rec):
    common.setup()
    return run_case(rec["case"], semi_layout="contiguous")


if __name__ == "__main__":
    import time
    t = time.time()
    st, f = explore("quick")
    print({k: v for k, v in st.items() if k not in ("samples", "rule")}, "failure:", json.dumps(f)[:700] if f else None, round(time.time() - t, 1))
