"""C04 run-time channel (bounded stand-in for the supervised half, twin for the KNN half).

Scope: supervised - ALL 720 orders of 6 distinct weights (n = 4) x all labelings with >= 2 classes (thorough; a seeded
sample of them in the quick tier), seeded distinct-weight matrices for n = 5, 6, and generic positive feature data with
every metric whose axiom row says symmetric + non-negative + zero self-distance (tie-freeness verified per case);
KNN-supervised - lattice data WITH ties, max_k <= 4.
"""
import itertools
import json
import random

import numpy as np

from . import common
from . import knn as KH


def sup_case_matrix(Wf, Y):
    from opfython.models.supervised import SupervisedOPF
    n = len(Y)
    opf = SupervisedOPF()
    opf.pre_computed_distance = True
    opf.pre_distances = np.asarray(Wf, dtype=float)
    X = np.zeros((n, 1))
    I = np.arange(n)
    opf.fit(X, np.asarray(Y), I)
    got = [nd.predicted_label for nd in opf.subgraph.nodes]
    if got != list(Y):
        return "training samples %s got labels %s instead of %s" % (
            [i for i in range(n) if got[i] != Y[i]], [got[i] for i in range(n) if got[i] != Y[i]],
            [Y[i] for i in range(n) if got[i] != Y[i]])
    preds = opf.predict(X, I)
    if list(preds) != list(Y):
        return "predicting the training set returns %s instead of %s" % (list(preds), list(Y))
    return None


def labelings(n):
    for y in itertools.product(range(min(n, 3)), repeat=n):
        if len(set(y)) >= 2 and sorted(set(y)) == list(range(len(set(y)))):
            yield list(y)


def explore(tier="quick", prop="C04"):
    common.setup()
    KH.consts()
    rng = random.Random(common.seed() * 977 + 5)
    stats = {"evaluations": 0, "distinct_nontrivial": 0, "samples": []}
    failure = None

    def matrix(n, weights):
        Wf = [[0.0] * n for _ in range(n)]
        it = iter(weights)
        for a in range(n):
            for b in range(a + 1, n):
                Wf[a][b] = Wf[b][a] = float(next(it))
        return Wf
    # n = 4: orders of 6 distinct weights
    orders = list(itertools.permutations(range(1, 7)))
    if tier == "quick":
        orders = rng.sample(orders, 60)
    labs4 = list(labelings(4))
    for od in orders:
        if failure:
            break
        for Y in (labs4 if tier == "thorough" else rng.sample(labs4, 4)):
            Wf = matrix(4, od)
            err = sup_case_matrix(Wf, Y)
            stats["evaluations"] += 1
            stats["distinct_nontrivial"] += 1
            if len(stats["samples"]) < 2:
                stats["samples"].append({"W": Wf, "Y": Y})
            if err:
                failure = {"kind": "c04-matrix", "W": Wf, "Y": Y, "observed": {"error": err, "props": ["C04"]}}
                break
    for n in (5, 6):
        for _ in range(40 if tier == "quick" else 1500):
            if failure:
                break
            m = n * (n - 1) // 2
            Wf = matrix(n, rng.sample(range(1, 10 * m), m))
            Y = rng.choice(list(labelings(n)))
            err = sup_case_matrix(Wf, Y)
            stats["evaluations"] += 1
            stats["distinct_nontrivial"] += 1
            if err:
                failure = {"kind": "c04-matrix", "W": Wf, "Y": Y, "observed": {"error": err, "props": ["C04"]}}
    # metrics that are symmetric non-negative dissimilarities with zero self-distance, generic positive data
    if not failure:
        from specs.metrics import METRICS
        from opfython.models.supervised import SupervisedOPF
        import opfython.math.distance as d
        for name in sorted(METRICS):
            ax = METRICS[name]["axioms"].split()
            if not {"sym", "nonneg", "zero"} <= set(ax):
                continue
            if failure:
                break
            for _ in range(2 if tier == "quick" else 20):
                n = rng.randint(4, 8)
                X = np.asarray([[round(rng.uniform(0.1, 3), 4) for _ in range(3)] for _ in range(n)])
                if name in ("hamming",):
                    continue
                Y = np.asarray(rng.choice(list(labelings(min(n, 6)))) + [0] * max(0, n - 6))
                fn = d.DISTANCES[name]
                ws = [float(fn(X[a].copy(), X[b].copy())) for a in range(n) for b in range(a + 1, n)]
                if len(set(ws)) != len(ws) or any(w != w for w in ws):
                    continue        # not tie-free (or NaN): outside the hypothesis
                opf = SupervisedOPF(distance=name)
                opf.fit(X.copy(), Y.copy())
                got = [nd.predicted_label for nd in opf.subgraph.nodes]
                preds = opf.predict(X.copy())
                stats["evaluations"] += 1
                stats["distinct_nontrivial"] += 1
                if got != list(Y) or list(preds) != list(Y):
                    failure = {"kind": "c04-features", "metric": name, "X": X.tolist(), "Y": Y.tolist(),
                               "observed": {"error": "fit labels %s, predictions %s, true %s" % (got, list(preds), list(Y)),
                                            "props": ["C04"]}}
                    break
    # KNN half (ties included)
    if not failure:
        r2 = random.Random(common.seed() + 99)
        for _ in range(60 if tier == "quick" else 1500):
            case = KH.gen_case(r2, "C04")
            res = KH.run_case(case)
            stats["evaluations"] += 1
            stats["distinct_nontrivial"] += 1
            if res is not None and "C04" in res.get("props", []):
                failure = {"kind": "knn-case", "case": case, "observed": res}
                break
    stats["rule"] = ("supervised: orders of distinct weights through pre_distances (n=4: %s; n=5,6 seeded), generic positive "
                     "feature data with every symmetric non-negative zero-self metric (tie-freeness checked); KNN-supervised: "
                     "lattice data with ties; every case is non-trivial (>= 2 classes, >= 4 samples)" % (
                         "all 720 x all labelings" if tier == "thorough" else "seeded sample"))
    return stats, failure


def replay(rec):
    common.setup()
    KH.consts()
    if rec["kind"] == "c04-matrix":
        err = sup_case_matrix(rec["W"], rec["Y"])
        return {"error": err} if err else None
    if rec["kind"] == "knn-case":
        return KH.run_case(rec["case"])
    from opfython.models.supervised import SupervisedOPF
    X, Y = np.asarray(rec["X"]), np.asarray(rec["Y"])
    opf = SupervisedOPF(distance=rec["metric"])
    opf.fit(X.copy(), Y.copy())
    got = [nd.predicted_label for nd in opf.subgraph.nodes]
    return None if got == list(Y) else {"error": "fit labels %s, true %s" % (got, list(Y))}


if __name__ == "__main__":
    import time
    t = time.time()
    st, f = explore("quick")
    print({k: v for k, v in st.items() if k not in ("samples", "rule")}, "failure:", json.dumps(f)[:800] if f else None, round(time.time() - t, 1))
