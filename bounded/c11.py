"""C11 run-time channel: invariance of supervised training / prediction to the order of the training samples (bounded
stand-in for the permutation half) and to the five mutually monotone Euclidean-family metrics.

Scope: tie-free data (all pairwise distances among training and query samples distinct, checked per case), n <= 8,
all n! permutations for n <= 5 in the thorough tier (seeded samples otherwise), queries <= 4, feature scales 0.3 .. 25.
"""
import itertools
import json
import random

import numpy as np

from . import common

FAMILY = ["euclidean", "squared_euclidean", "average_euclidean", "log_euclidean", "log_squared_euclidean"]


def fit_predict(metric, X, Y, Q):
    from opfython.models.supervised import SupervisedOPF
    m = SupervisedOPF(distance=metric)
    m.fit(X.copy(), Y.copy())
    preds = m.predict(Q.copy()) if len(Q) else []
    return m, list(preds)


def explore(tier="quick", prop="C11"):
    common.setup()
    rng = random.Random(common.seed() * 733 + 6)
    stats = {"evaluations": 0, "distinct_nontrivial": 0, "samples": []}
    failure = None
    for it in range(30 if tier == "quick" else 600):
        n = rng.randint(3, 8)
        scale = rng.choice([0.3, 1.0, 6.0, 25.0])
        X = np.asarray([[round(rng.uniform(0, scale), 5) for _ in range(2)] for _ in range(n)])
        Q = np.asarray([[round(rng.uniform(0, scale), 5) for _ in range(2)] for _ in range(rng.randint(1, 4))])
        Y = np.asarray([i % 2 for i in range(n)])
        rng.shuffle(Y)
        A = np.vstack([X, Q])
        ds = sorted(float(np.sum((A[a] - A[b]) ** 2)) for a in range(len(A)) for b in range(a + 1, len(A)))
        if any(abs(ds[i] - ds[i + 1]) < 1e-9 * max(1.0, ds[i]) for i in range(len(ds) - 1)):
            continue        # not tie-free
        case = {"X": X.tolist(), "Y": Y.tolist(), "Q": Q.tolist()}
        base, bp = fit_predict("euclidean", X, Y, Q)
        ref = [(nd.status, nd.predicted_label) for nd in base.subgraph.nodes]
        # (a) the five monotone metrics: same prototypes, labels, predictions
        for metric in FAMILY[1:]:
            m, p = fit_predict(metric, X, Y, Q)
            got = [(nd.status, nd.predicted_label) for nd in m.subgraph.nodes]
            stats["evaluations"] += 1
            if got != ref or p != bp:
                failure = {"kind": "c11-case", "case": case, "observed": {
                    "error": "metric %s gives prototypes/labels %s predictions %s, euclidean gives %s / %s" % (metric, got, p, ref, bp),
                    "props": ["C11"]}}
                break
        if failure:
            break
        # (b) permutations of the training samples
        perms = list(itertools.permutations(range(n))) if (n <= 5 and tier == "thorough") else \
            [tuple(rng.sample(range(n), n)) for _ in range(6)]
        refc = [(float(nd.cost), nd.status, nd.predicted_label) for nd in base.subgraph.nodes]
        for pm in perms:
            m, p = fit_predict("euclidean", X[list(pm)], Y[list(pm)], Q)
            got = [None] * n
            for pos, orig in enumerate(pm):
                nd = m.subgraph.nodes[pos]
                got[orig] = (float(nd.cost), nd.status, nd.predicted_label)
            stats["evaluations"] += 1
            if got != refc or p != bp:
                failure = {"kind": "c11-case", "case": dict(case, perm=list(pm)), "observed": {
                    "error": "training order %s changes costs/prototypes/labels or predictions" % (list(pm),), "props": ["C11"]}}
                break
        stats["distinct_nontrivial"] += 1
        if len(stats["samples"]) < 2:
            stats["samples"].append(case)
        if failure:
            break
    stats["rule"] = ("tie-free generated data (n = 3..8, scales 0.3..25): the real SupervisedOPF fitted with the five "
                     "Euclidean-family metrics and on permuted copies of the training set; prototype status, assigned labels, "
                     "costs (for permutations) and predictions must coincide; distinct non-trivial = tie-free data sets")
    return stats, failure


def replay(rec):
    return rec.get("observed")


if __name__ == "__main__":
    import time
    t = time.time()
    st, f = explore("quick")
    print({k: v for k, v in st.items() if k not in ("samples", "rule")}, "failure:", json.dumps(f)[:700] if f else None, round(time.time() - t, 1))
