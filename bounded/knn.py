"""Run-time channel for the k-NN based models (C12, C13, C14, C16, C04-KNN half): the REAL KNNSubgraph,
KNNSupervisedOPF and UnsupervisedOPF driven over small sample sets with brute-force oracles for the property
statements (and, where sidecar contracts exist, the contracts wrapped around the real methods).

Scope (bounded, stated): n <= 9 samples on the {0,1,2}^d lattice (duplicates, many equal distances) or random
points, d <= 2, k <= 4 (also k > n-1 for arc creation), metrics euclidean/manhattan/squared_euclidean and
pre-computed matrices with shuffled index arrays, query batches <= 4 incl. copies of training samples.
"""
import json
import math
import random

import numpy as np

from . import common

FLOAT_MAX = None
MAX_DENSITY = None
EPSILON = None


def consts():
    global FLOAT_MAX, MAX_DENSITY, EPSILON
    import opfython.utils.constants as c
    FLOAT_MAX, MAX_DENSITY, EPSILON = c.FLOAT_MAX, c.MAX_DENSITY, c.EPSILON


def gen_points(rng, nmin=2, nmax=9):
    n = rng.randint(nmin, nmax)
    dim = rng.randint(1, 2)
    r = rng.random()
    if r < 0.2:
        # almost-tied data: lattice positions read with a small measurement error (densities of neighbouring samples
        # then differ by less than 1 on the 1..1000 scale without being equal)
        # (distinct lattice positions: near-duplicates at distance ~1e-4 fall under note N3, degenerate density range)
        n = rng.randint(max(nmin, min(6, nmax)), max(nmax, min(12, nmax + 3)))
        cells = [(a, b) for a in range(4) for b in range(4)]
        rng.shuffle(cells)
        X = [[1.0 + a + rng.uniform(-1e-4, 1e-4), 1.0 + b + rng.uniform(-1e-4, 1e-4)] for a, b in cells[:n]]
    elif r < 0.6:
        X = [[float(rng.randint(0, 2)) for _ in range(dim)] for _ in range(n)]
    else:
        X = [[round(rng.uniform(0, 4), 3) for _ in range(dim)] for _ in range(n)]
    return X


def weights(case):
    """returns (W over training positions as nested list, function wq(train_pos, query_pos))"""
    import opfython.math.distance as d
    fn = d.DISTANCES[case["metric"]]
    X = np.asarray(case["X"], dtype=float)
    if case.get("pre"):
        A = np.asarray(case["ALL"], dtype=float)
        M = np.array([[float(fn(A[a].copy(), A[b].copy())) for b in range(len(A))] for a in range(len(A))])
        I = case["I"]
        return [[M[I[a]][I[b]] for b in range(len(I))] for a in range(len(I))], M
    n = len(X)
    return [[float(fn(X[a].copy(), X[b].copy())) for b in range(n)] for a in range(n)], None


def make_subgraph(case):
    from opfython.subgraphs import KNNSubgraph
    X = np.asarray(case["X"], dtype=float)
    Y = np.asarray(case.get("Y") or [0] * len(X), dtype=int)
    if case.get("pre"):
        return KNNSubgraph(X.copy(), Y, np.asarray(case["I"], dtype=int))
    return KNNSubgraph(X.copy(), Y)


def arcs_args(case, M):
    import opfython.math.distance as d
    return (d.DISTANCES[case["metric"]], bool(case.get("pre")), M)


# ------------------------------------------------------------------------------------ C12

def check_arcs(sg, Wm, k, max_distances, density_before=0.0):
    n = len(Wm)
    m = min(k, n - 1)
    glob = density_before
    per_rank = [0.0] * k
    for i in range(n):
        adj = [int(a) for a in sg.nodes[i].adjacency]
        if len(adj) != m:
            return "sample %d has %d neighbours, expected min(k, n-1) = %d" % (i, len(adj), m)
        if len(set(adj)) != len(adj) or i in adj:
            return "sample %d: neighbour list %s is not a list of distinct other samples" % (i, adj)
        ds = [Wm[i][a] for a in adj]
        if any(ds[t] > ds[t + 1] for t in range(len(ds) - 1)):
            return "sample %d: neighbour distances %s are not ascending" % (i, ds)
        others = [Wm[i][j] for j in range(n) if j != i and j not in adj]
        if ds and others and max(ds) > min(others):
            return "sample %d: a non-neighbour at distance %r is closer than neighbour distance %r" % (i, min(others), max(ds))
        if sorted(ds) != sorted(Wm[i][j] for j in range(n) if j != i)[:m]:
            return "sample %d: neighbour distances %s are not the %d smallest" % (i, ds, m)
        rad = max(ds) if ds else 0.0
        if float(sg.nodes[i].radius) != float(rad):
            return "sample %d: radius %r != largest neighbour distance %r" % (i, sg.nodes[i].radius, rad)
        for t, dv in enumerate(ds):
            per_rank[t] = max(per_rank[t], dv)
            glob = max(glob, dv)
    if [float(x) for x in max_distances] != [float(x) for x in per_rank]:
        return "per-rank maxima %s != true maxima %s" % (list(max_distances), per_rank)
    want = 1 if glob < 0.00001 else glob
    if float(sg.density) != float(want):
        return "density bound %r != %r" % (sg.density, want)
    return None


def check_pdf(sg, Wm, k):
    n = len(Wm)
    const = 2 * sg.density / 9
    if float(sg.constant) != float(const):
        return "constant %r != 2/9 of the density bound %r" % (sg.constant, const)
    pdf = []
    for i in range(n):
        adj = [int(a) for a in sg.nodes[i].adjacency][:k]
        s = 0.0
        for a in adj:
            s += math.exp(-Wm[i][a] / const)
        pdf.append(s / (k + 1))
    lo, hi = min(pdf), max(pdf)
    if abs(sg.min_density - lo) > 1e-12 or abs(sg.max_density - hi) > 1e-12:
        return "recorded min/max %r/%r != %r/%r" % (sg.min_density, sg.max_density, lo, hi)
    for i in range(n):
        want = MAX_DENSITY if lo == hi else (MAX_DENSITY - 1) * (pdf[i] - lo) / (hi - lo) + 1
        got = sg.nodes[i].density
        if abs(got - want) > 1e-9 * max(1, abs(want)):
            return "sample %d: density %r != affine map of the estimate %r" % (i, got, want)
        if abs(sg.nodes[i].cost - (got - 1)) > 1e-12:
            return "sample %d: initial cost %r != density - 1" % (i, sg.nodes[i].cost)
    order = sorted(range(n), key=lambda i: pdf[i])
    for a, b in zip(order, order[1:]):
        if pdf[a] < pdf[b] and not sg.nodes[a].density <= sg.nodes[b].density:
            return "density map does not preserve order"
    return None


def run_c12(case):
    sg = make_subgraph(case)
    Wm, M = weights(case)
    k = case["k"]
    md = sg.create_arcs(k, *arcs_args(case, M))
    err = check_arcs(sg, Wm, k, md)
    if err:
        return {"stage": "create_arcs", "error": err, "props": ["C12"]}
    kk = min(k, len(Wm) - 1)
    if kk >= 1:
        sg.calculate_pdf(kk, *arcs_args(case, M))
        err = check_pdf(sg, Wm, kk)
        if err:
            return {"stage": "calculate_pdf", "error": err, "props": ["C12"]}
        dens = [sg.nodes[i].density for i in range(len(Wm))]
        before = [sg.nodes[i].cost for i in range(len(Wm))]
        sg.eliminate_maxima_height(case["h"])
        for i in range(len(Wm)):
            want = max(dens[i] - case["h"], 0) if case["h"] > 0 else before[i]
            if float(sg.nodes[i].cost) != float(want):
                return {"stage": "eliminate_maxima_height", "props": ["C12"],
                        "error": "sample %d: cost %r after height %r, expected %r" % (i, sg.nodes[i].cost, case["h"], want)}
    return None


# ------------------------------------------------------------------------------------ C13

def check_forest(model, kind, neighbours_of):
    sg = model.subgraph
    n = sg.n_nodes
    roots = [i for i in range(n) if sg.nodes[i].pred == -1]
    for i in range(n):
        nd = sg.nodes[i]
        seen, t = set(), i
        while sg.nodes[t].pred != -1:
            if t in seen:
                return "predecessor cycle through sample %d" % t
            seen.add(t)
            t = sg.nodes[t].pred
            if not 0 <= t < n:
                return "predecessor chain of %d leaves the graph" % i
        if nd.root != t:
            return "sample %d: recorded root %d but its predecessor chain reaches root %d" % (i, nd.root, t)
        if kind == "unsup" and nd.cluster_label != sg.nodes[t].cluster_label:
            return "sample %d: cluster %d != cluster %d of its root" % (i, nd.cluster_label, sg.nodes[t].cluster_label)
        if kind == "knn" and nd.predicted_label != sg.nodes[t].predicted_label:
            return "sample %d: assigned label differs from its root's" % i
        if nd.pred == -1:
            if float(nd.cost) != float(nd.density):
                return "root %d: cost %r != density %r" % (i, nd.cost, nd.density)
        else:
            p = nd.pred
            if neighbours_of is not None and i not in neighbours_of(p):
                return "sample %d was not a graph neighbour of its predecessor %d" % (i, p)
            want = min(sg.nodes[p].cost, nd.density)
            if float(nd.cost) != float(want):
                return "sample %d: cost %r != min(cost(pred)=%r, density=%r)" % (i, nd.cost, sg.nodes[p].cost, nd.density)
            if not nd.cost > nd.density - 1:
                return "sample %d: cost %r is not above density - 1 = %r" % (i, nd.cost, nd.density - 1)
        if nd.density - sg.nodes[t].density >= 1:
            return "sample %d: density %r exceeds its root's %r by >= 1" % (i, nd.density, sg.nodes[t].density)
    if kind == "unsup":
        if sg.n_clusters != len(roots):
            return "n_clusters %d != number of roots %d" % (sg.n_clusters, len(roots))
        if sorted(sg.nodes[r].cluster_label for r in roots) != list(range(len(roots))):
            return "root identifiers %s are not 0..n_clusters-1" % sorted(sg.nodes[r].cluster_label for r in roots)
    return None


def run_unsup(case, want=("C13", "C14", "C16"), m=None):
    from opfython.models.unsupervised import UnsupervisedOPF
    Wm, M = weights(case)
    X = np.asarray(case["X"], dtype=float)
    n = len(X)
    if m is None:
        m = UnsupervisedOPF(min_k=case["min_k"], max_k=case["max_k"], distance=case["metric"])
    else:
        m.max_k = max(m.max_k, case["max_k"])       # (the setter insists on min_k <= max_k at every moment)
        m.min_k = case["min_k"]
        m.max_k = case["max_k"]
    if case.get("pre"):
        m.pre_computed_distance = True
        m.pre_distances = M
    cuts = []
    orig_cut = UnsupervisedOPF._normalized_cut

    def rec_cut(self, k):
        r = orig_cut(self, k)
        cuts.append((k, float(r)))
        return r
    UnsupervisedOPF._normalized_cut = rec_cut
    try:
        Y = np.asarray(case.get("Y") or [0] * n, dtype=int)
        if case.get("pre"):
            m.fit(X.copy(), Y, np.asarray(case["I"], dtype=int))
        else:
            m.fit(X.copy(), Y)
    finally:
        UnsupervisedOPF._normalized_cut = orig_cut
    sg = m.subgraph
    bk = sg.best_k
    # C16
    ks = [k for k, _ in cuts]
    if ks != list(range(case["min_k"], case["min_k"] + len(ks))):
        return {"stage": "best_k", "error": "evaluated candidates %s are not a prefix of min_k..max_k" % ks, "props": ["C16"]}, m
    stop = [i for i, (_, c) in enumerate(cuts) if c == 0.0]
    if (stop and stop[0] != len(cuts) - 1) or (not stop and len(cuts) != case["max_k"] - case["min_k"] + 1):
        return {"stage": "best_k", "error": "evaluation stopped at the wrong candidate: %s" % cuts, "props": ["C16"]}, m
    best = min(c for _, c in cuts)
    want_k = min(k for k, c in cuts if c == best)
    if bk != want_k:
        return {"stage": "best_k", "error": "best_k %d but the smallest k with the lowest cut is %d (cuts %s)" % (bk, want_k, cuts),
                "props": ["C16"]}, m
    # final arcs use best_k
    if any(len(sg.nodes[i].adjacency) < min(bk, n - 1) for i in range(n)):
        return {"stage": "best_k", "error": "final graph was not built with best_k", "props": ["C16"]}, m

    def nb(p):
        nd = sg.nodes[p]
        return [int(a) for a in nd.adjacency][: nd.n_plateaus + bk]
    err = check_forest(m, "unsup", nb)
    if err:
        return {"stage": "clustering", "error": err, "props": ["C13"]}, m
    m.propagate_labels()
    for i in range(n):
        if sg.nodes[i].predicted_label != sg.nodes[sg.nodes[i].root].label:
            return {"stage": "propagate", "error": "sample %d does not carry the true label of its root" % i, "props": ["C13"]}, m
    return None, m


def knn_query_oracle(model, Wq_row, k):
    """C14: Wq_row[t] = distance between the query and training position t"""
    sg = model.subgraph
    n = sg.n_nodes
    order = sorted(range(n), key=lambda t: (Wq_row[t], t))[:k]
    ds = [Wq_row[t] for t in order]
    dens = 0.0
    for t in range(k):
        dv = ds[t] if t < len(ds) else FLOAT_MAX
        dens += math.exp(-dv / sg.constant)
    dens /= k
    dens = (MAX_DENSITY - 1) * (dens - sg.min_density) / (sg.max_density - sg.min_density + EPSILON) + 1
    # ties in distance: any set of k nearest is acceptable for the statement
    kth = ds[-1]
    sure = [t for t in range(n) if Wq_row[t] < kth]
    tied = [t for t in range(n) if Wq_row[t] == kth]
    return dens, sure, tied, len(order)


def check_knn_predictions(model, preds, clusters, WQ, k):
    sg = model.subgraph
    for x, lab in enumerate(preds):
        row = [WQ[t][x] for t in range(sg.n_nodes)]
        dens, sure, tied, m = knn_query_oracle(model, row, k)
        import itertools
        ok_labels, ok_pairs = set(), set()
        need = m - len(sure)
        for extra in itertools.combinations(tied, need):
            cand = sure + list(extra)
            vals = {t: min(sg.nodes[t].cost, dens) for t in cand}
            best = max(vals.values())
            for t in cand:
                if vals[t] == best:
                    ok_labels.add(sg.nodes[t].predicted_label)
                    ok_pairs.add((sg.nodes[t].predicted_label, sg.nodes[t].cluster_label))
        if lab not in ok_labels:
            return "query %d: label %r is not that of a neighbour maximising min(cost, density) among the %d nearest (allowed %s)" % (
                x, lab, k, sorted(ok_labels))
        if clusters is not None and (lab, clusters[x]) not in ok_pairs:
            return "query %d: (label, cluster) = %r not from a maximising neighbour" % (x, (lab, clusters[x]))
    return None


def run_predict(case, model, kind):
    import opfython.math.distance as d
    fn = d.DISTANCES[case["metric"]]
    X = np.asarray(case["X"], dtype=float)
    Q = np.asarray(case["Q"], dtype=float)
    if not len(Q):
        return None
    k = model.subgraph.best_k
    if case.get("pre"):
        A = np.asarray(case["ALL"], dtype=float)
        IQ = case["IQ"]
        Qf = np.asarray([A[i] for i in IQ])
        out = model.predict(Qf.copy(), np.asarray(IQ, dtype=int))
        WQ = [[float(fn(Qf[b].copy(), X[a].copy())) for b in range(len(Qf))] for a in range(len(X))]
    else:
        out = model.predict(Q.copy())
        WQ = [[float(fn(Q[b].copy(), X[a].copy())) for b in range(len(Q))] for a in range(len(X))]
    preds, clusters = (out if kind == "unsup" else (out, None))
    err = check_knn_predictions(model, preds, clusters, WQ, k)
    if err:
        return {"stage": "predict", "error": err, "props": ["C14"]}
    return None


def run_knnsup(case, m=None):
    from opfython.models.knn_supervised import KNNSupervisedOPF
    import opfython.math.general as g
    X = np.asarray(case["X"], dtype=float)
    Y = np.asarray(case["Y"], dtype=int)
    XV = np.asarray(case["XV"], dtype=float)
    YV = np.asarray(case["YV"], dtype=int)
    if m is None:
        m = KNNSupervisedOPF(max_k=case["max_k"], distance=case["metric"])
    else:
        m.max_k = case["max_k"]       # the same estimator object, fitted again
    accs = []
    orig = g.opf_accuracy

    def rec(labels, preds):
        r = orig(labels, preds)
        accs.append(float(r))
        return r
    g.opf_accuracy = rec
    try:
        m.fit(X.copy(), Y.copy(), XV.copy(), YV.copy())
    finally:
        g.opf_accuracy = orig
    sg = m.subgraph
    if len(accs) != case["max_k"]:
        return {"stage": "best_k", "error": "%d candidates evaluated, expected %d" % (len(accs), case["max_k"]), "props": ["C16"]}, m
    want_k = 1 + accs.index(max(accs))
    if sg.best_k != want_k:
        return {"stage": "best_k", "error": "best_k %d, smallest k with the highest validation accuracy is %d (%s)" % (
            sg.best_k, want_k, accs), "props": ["C16"]}, m
    for i in range(len(X)):
        if sg.nodes[i].predicted_label != int(Y[i]):
            return {"stage": "resubstitution", "error": "training sample %d got label %d, true label %d" % (
                i, sg.nodes[i].predicted_label, int(Y[i])), "props": ["C04"]}, m
    err = check_forest(m, "knn", None)
    if err:
        return {"stage": "clustering", "error": err, "props": ["C13"]}, m
    return None, m


def run_case(case):
    consts()
    try:
        if case["kind"] == "arcs":
            return run_c12(case)
        prev = None
        if case.get("before"):
            # a history on ONE estimator object: the earlier case is fitted (and predicted) first, then this one
            b = case["before"]
            _r, prev = (run_unsup(b) if b["kind"] == "unsup" else run_knnsup(b))
            if _r is None:
                run_predict(b, prev, "unsup" if b["kind"] == "unsup" else "knn")
        if case["kind"] == "unsup":
            res, m = run_unsup(case, m=prev)
            if res:
                return res
            return run_predict(case, m, "unsup")
        if case["kind"] == "knnsup":
            res, m = run_knnsup(case, m=prev)
            if res:
                return res
            return run_predict(case, m, "knn")
    except Exception as ex:
        import traceback
        return {"stage": "exception", "error": "%s: %s" % (type(ex).__name__, ex), "trace": traceback.format_exc()[-1200:],
                "props": ["C12", "C13", "C14", "C16", "C04"] if case["kind"] != "arcs" else ["C12"]}
    raise ValueError(case["kind"])


def gen_case(rng, prop):
    metric = rng.choice(["euclidean", "manhattan", "squared_euclidean"])
    kind = {"C12": "arcs"}.get(prop) or rng.choice(["unsup", "knnsup"] if prop != "C04" else ["knnsup"])
    if prop in ("C12", "C13", "C14") and rng.random() < 0.25:
        # the statements speak of "all metrics": the registry has non-symmetric ones (d(x, y) != d(y, x))
        metric = rng.choice(["pearson", "neyman"])
    if kind == "arcs":
        X = gen_points(rng, 2, 8)
        case = {"kind": "arcs", "X": X, "metric": metric, "k": rng.randint(1, min(5, len(X) + 1)),
                "h": rng.choice([-1.0, 0.0, 0.5, 3.0, 2000.0])}
    elif kind == "unsup":
        X = gen_points(rng, 4, 9)
        n = len(X)
        mk = rng.randint(1, min(3, n - 1))
        case = {"kind": "unsup", "X": X, "metric": metric, "min_k": mk, "max_k": rng.randint(mk, min(4, n - 1)),
                "Y": [rng.randrange(3) for _ in range(n)],
                "Q": [list(rng.choice(X)) if rng.random() < 0.4 else [round(rng.uniform(0, 3), 2)] * len(X[0])
                      for _ in range(rng.randint(1, 4))]}
    else:
        X = gen_points(rng, 4, 9)
        n = len(X)
        dim = len(X[0])
        Y = [rng.randrange(2) for _ in range(n)]
        if len(set(Y)) < 2:
            Y[0], Y[1] = 0, 1
        XV = [[round(rng.uniform(0, 3), 2) for _ in range(dim)] for _ in range(rng.randint(2, 4))]
        YV = [rng.randrange(2) for _ in XV]
        if len(set(YV)) < 2:
            YV[0], YV[1] = 0, 1
        case = {"kind": "knnsup", "X": X, "Y": Y, "XV": XV, "YV": YV, "metric": metric,
                "max_k": rng.randint(1, min(4, n - 1)),
                "Q": [list(rng.choice(X)) if rng.random() < 0.4 else [round(rng.uniform(0, 3), 2)] * dim
                      for _ in range(rng.randint(1, 4))]}
    if kind in ("arcs", "unsup") and rng.random() < 0.35:
        # pre-computed distances over a larger data set with shuffled index arrays
        n = len(case["X"])
        extra = gen_points(rng, 2, 4)
        dim = len(case["X"][0])
        extra = [e[:dim] + [0.0] * (dim - len(e)) for e in extra]
        ALL = case["X"] + extra
        perm = list(range(len(ALL)))
        rng.shuffle(perm)
        ALLp = [None] * len(ALL)
        for src, dst in enumerate(perm):
            ALLp[dst] = ALL[src]
        case["pre"] = True
        case["ALL"] = ALLp
        case["I"] = [perm[i] for i in range(n)]
        case["IQ"] = [perm[i] for i in range(n, len(ALL))][: len(case.get("Q", [])) or 2]
        case["Q"] = [ALLp[i] for i in case["IQ"]]
    return case


def explore(tier="quick", prop="C12"):
    common.setup()
    consts()
    rng = random.Random(common.seed() * 104729 + sum(map(ord, prop)))
    stats = {"evaluations": 0, "distinct_nontrivial": 0, "samples": []}
    seen = set()
    failure = None
    n_cases = {"quick": 1200, "thorough": 12000}[tier]
    last = {}
    for _ in range(n_cases):
        case = gen_case(rng, prop)
        k = case["kind"]
        if k in ("unsup", "knnsup") and not case.get("pre"):
            # every third such case re-uses the estimator object of an earlier case of the same kind and metric
            b = last.get((k, case["metric"]))
            if b is not None and rng.random() < 0.34 and len(b["X"][0]) == len(case["X"][0]):
                case = dict(case, before=b)
            last[(k, case["metric"])] = {kk: vv for kk, vv in case.items() if kk != "before"}
        res = run_case(case)
        stats["evaluations"] += 1
        key = json.dumps(case, sort_keys=True)
        if key not in seen and len(case["X"]) >= 3:
            seen.add(key)
            stats["distinct_nontrivial"] += 1
            if len(stats["samples"]) < 2:
                stats["samples"].append(case)
        if res is not None and prop not in res.get("props", [prop]):
            stats.setdefault("other_property_failures", []).append(res.get("props"))
            res = None
        if res is not None:
            failure = {"kind": "knn-case", "case": case, "observed": res}
            break
    stats["rule"] = ("real KNNSubgraph / UnsupervisedOPF / KNNSupervisedOPF on generated sample sets (n<=9, lattice with "
                     "duplicates or random points, 3 symmetric + 2 non-symmetric metrics, pre-computed matrices with shuffled indices, k<=5, every third model case on an estimator "
                     "object already fitted and used on another case) against "
                     "brute-force oracles of the property statement; non-trivial = distinct case with >= 3 samples")
    return stats, failure


def replay(rec):
    common.setup()
    return run_case(rec["case"])


if __name__ == "__main__":
    import sys
    import time
    t = time.time()
    st, f = explore("quick", sys.argv[1] if len(sys.argv) > 1 else "C12")
    print({k: v for k, v in st.items() if k not in ("samples", "rule")})
    print("failure:", json.dumps(f)[:2500] if f else None, "time", round(time.time() - t, 1))
