"""C20 run-time channel: the real evaluation measures against brute-force definitions.

Scope: label / prediction vectors of length 1..12 with K = 1..4 classes, every class present among the labels,
predictions within 0..K-1 (all-correct, all-wrong, imbalanced and random cases); matrices up to 6 x 4 for normalize
(columns with non-zero spread).  Includes K = 1 (the 0/0 -> NaN -> nansum path that the real-number model excludes).
"""
import json
import math
import random

import numpy as np

from . import common


def ref_accuracy(lab, prd, K):
    N = len(lab)
    s = 0.0
    for c in range(K):
        fp = sum(1 for t in range(N) if prd[t] == c and lab[t] != c)
        fn = sum(1 for t in range(N) if lab[t] == c and prd[t] != c)
        nc = sum(1 for t in range(N) if lab[t] == c)
        a = fp / (N - nc) if N - nc else 0.0
        b = fn / nc
        s += a + b
    return 1 - s / (2 * K)


def explore(tier="quick", prop="C20"):
    common.setup()
    import opfython.math.general as g
    rng = random.Random(common.seed() * 4099 + 1)
    stats = {"evaluations": 0, "distinct_nontrivial": 0, "samples": []}
    failure = None
    n_cases = 400 if tier == "quick" else 20000

    def fail(what, lab, prd):
        nonlocal failure
        if failure is None:
            failure = {"kind": "c20-case", "labels": list(map(int, lab)), "preds": list(map(int, prd)),
                       "observed": {"error": what, "props": ["C20"]}}
    for it in range(n_cases):
        if failure:
            break
        K = rng.choice([1, 2, 2, 3, 3, 4]) if it % 6 else rng.choice([6, 9, 16, 17, 20])
        N = rng.randint(K, 12) if K <= 4 else K + rng.randint(0, 12)
        # label arrays as callers hold them: Python lists and numpy arrays of any integer width
        dt = rng.choice([None, None, np.int64, np.int32, np.int16, np.uint8, np.int8])
        arr = (lambda v: np.asarray(v)) if dt is None else (lambda v: np.asarray(v, dtype=dt))
        lab = list(range(K)) + [rng.randrange(K) for _ in range(N - K)]
        if it % 7 == 0 and K > 1:
            lab = [0] * (N - K + 1) + list(range(1, K))        # imbalanced
        rng.shuffle(lab)
        mode = it % 5
        if mode == 0:
            prd = list(lab)
        elif mode == 1:
            prd = [(x + 1) % K for x in lab]
        elif mode == 2:
            prd = [0] * N
        else:
            prd = [rng.randrange(K) for _ in range(N)]
        stats["evaluations"] += 1
        if K >= 2 and N >= 3:
            stats["distinct_nontrivial"] += 1
        if len(stats["samples"]) < 3 and mode == 3:
            stats["samples"].append({"labels": lab, "preds": prd})
        try:
            acc = float(g.opf_accuracy(arr(lab), arr(prd)))
            want = ref_accuracy(lab, prd, K)
            if abs(acc - want) > 1e-12:
                fail("opf_accuracy=%r but the definition gives %r" % (acc, want), lab, prd)
                break
            if not (-1e-12 <= acc <= 1 + 1e-12):
                fail("opf_accuracy=%r outside [0, 1]" % acc, lab, prd)
                break
            if (abs(acc - 1) < 1e-15) != (lab == prd):
                fail("opf_accuracy == 1 is %r but all-correct is %r" % (abs(acc - 1) < 1e-15, lab == prd), lab, prd)
                break
            cm = g.confusion_matrix(lab, prd) if dt is None else g.confusion_matrix(arr(lab), arr(prd))
            for a in range(K):
                for b in range(K):
                    if cm[a][b] != sum(1 for t in range(N) if lab[t] == a and prd[t] == b):
                        fail("confusion matrix entry (%d,%d) = %r" % (a, b, cm[a][b]), lab, prd)
            if cm.shape != (K, K) or cm.sum() != N:
                fail("confusion matrix shape/sum %r/%r" % (cm.shape, cm.sum()), lab, prd)
            per = g.opf_accuracy_per_label(arr(lab), arr(prd))
            for c in range(K):
                nc = sum(1 for t in range(N) if lab[t] == c)
                tp = sum(1 for t in range(N) if lab[t] == c and prd[t] == c)
                if abs(per[c] - tp / nc) > 1e-12:
                    fail("per-label accuracy of class %d = %r, recall is %r" % (c, per[c], tp / nc), lab, prd)
            pu = float(g.purity(lab, prd) if dt is None else g.purity(arr(lab), arr(prd)))
            want = sum(max(sum(1 for t in range(N) if lab[t] == a and prd[t] == b) for a in range(K)) for b in range(K)) / N
            if abs(pu - want) > 1e-12 or not (0 < pu <= 1 + 1e-12):
                fail("purity=%r, definition %r" % (pu, want), lab, prd)
            pure = all(len({lab[t] for t in range(N) if prd[t] == b}) <= 1 for b in range(K))
            if (abs(pu - 1) < 1e-15) != pure:
                fail("purity == 1 is %r but every group single-class is %r" % (abs(pu - 1) < 1e-15, pure), lab, prd)
        except Exception as ex:
            fail("%s: %s" % (type(ex).__name__, ex), lab, prd)
    # normalize
    for _ in range(40 if tier == "quick" else 2000):
        if failure:
            break
        r, c = rng.randint(2, 6), rng.randint(1, 4)
        A = np.asarray([[round(rng.uniform(-3, 3), 3) for _ in range(c)] for _ in range(r)])
        if any(np.std(A[:, j]) == 0 for j in range(c)):
            continue
        out = g.normalize(A.copy())
        stats["evaluations"] += 1
        stats["distinct_nontrivial"] += 1
        for i in range(r):
            for j in range(c):
                col = A[:, j]
                mean = math.fsum(col) / r
                std = math.sqrt(math.fsum((x - mean) ** 2 for x in col) / r)
                if abs(out[i][j] - (A[i][j] - mean) / std) > 1e-9:
                    fail("normalize[%d][%d]=%r, expected %r" % (i, j, out[i][j], (A[i][j] - mean) / std), A.ravel(), [r, c])
    stats["rule"] = ("real opf_accuracy / confusion_matrix / opf_accuracy_per_label / purity on generated label vectors "
                     "(K=1..4 and 6..20, all classes present, length <= K + 12; lists and integer arrays of width 8..64 bits; all-correct, cyclic-shift, constant, imbalanced, random "
                     "predictions) and normalize on random matrices, against brute-force definitions; non-trivial = K >= 2 "
                     "and length >= 3")
    return stats, failure


def replay(rec):
    common.setup()
    import opfython.math.general as g
    lab, prd = rec["labels"], rec["preds"]
    try:
        K = max(lab) + 1
        acc = float(g.opf_accuracy(np.asarray(lab), np.asarray(prd)))
        want = ref_accuracy(lab, prd, K)
        if abs(acc - want) > 1e-12:
            return {"opf_accuracy": acc, "definition": want}
    except Exception as ex:
        return {"error": "%s: %s" % (type(ex).__name__, ex)}
    return None


if __name__ == "__main__":
    import time
    t = time.time()
    st, f = explore("quick")
    print({k: v for k, v in st.items() if k not in ("samples", "rule")}, "failure:", json.dumps(f)[:600] if f else None, round(time.time() - t, 1))
