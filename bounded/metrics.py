"""Run-time channel for the metrics (C06, C07, C08): the REAL (numba-compiled) functions reached through the registry
and through a model's `distance` option, against a FLOAT interpreter of the very closed forms of specs/metrics.py
(one spec source, two interpreters), the axiom table, and byte-level checks of caller arrays.

Scope (bounded, stated): vector lengths 1..6; generic random vectors in each metric's domain, probability vectors,
lattice vectors with exact zeros (for the metrics wrapped by avoid_zero_division: non-negative inputs, closed form
evaluated at the shifted arguments), identical and parallel vectors; triples for the triangle inequality.
"""
import json
import math
import random

import numpy as np

from . import common


class FloatAPI:
    def __init__(self, x, y):
        self.x, self.y = [float(v) for v in x], [float(v) for v in y]
        self.n = float(len(self.x))

    def S(self, f):
        return math.fsum(f(a, b) for a, b in zip(self.x, self.y))

    def M(self, f):
        return max(f(a, b) for a, b in zip(self.x, self.y))

    def C(self, f):
        return float(sum(1 for a, b in zip(self.x, self.y) if f(a, b)))

    sqrt = staticmethod(math.sqrt)
    psqrt = staticmethod(math.sqrt)
    log = staticmethod(math.log)
    exp = staticmethod(math.exp)
    abs = staticmethod(abs)
    min = staticmethod(min)
    max = staticmethod(max)

    @staticmethod
    def where(c, u, v):
        return u if c else v


def closed_form(name, x, y, eps):
    from specs.metrics import METRICS
    sp = METRICS[name]
    if sp["decorated"]:
        x = [float(v) + eps for v in x]
        y = [float(v) + eps for v in y]
    return sp["form"](FloatAPI(x, y))


def gen_vec(rng, n, domain, kind):
    if kind == "lattice":
        lo = 0 if domain != "real" else -1
        return [float(rng.randint(lo, 2)) for _ in range(n)]
    if kind == "prob":
        v = [rng.random() + 1e-3 for _ in range(n)]
        s = sum(v)
        return [a / s for a in v]
    if domain == "real":
        return [round(rng.uniform(-3, 3), 4) for _ in range(n)]
    return [round(rng.uniform(0.05, 4), 4) for _ in range(n)]


def close(a, b, rel=1e-9, ab=1e-12):
    if math.isnan(a) or math.isnan(b):
        return False
    if math.isinf(a) or math.isinf(b):
        return a == b
    return abs(a - b) <= ab + rel * max(abs(a), abs(b))


def explore(tier="quick", prop="C06"):
    common.setup()
    import opfython.math.distance as d
    import opfython.utils.constants as c
    from opfython.models.supervised import SupervisedOPF
    from specs.metrics import METRICS
    rng = random.Random(common.seed() * 31337 + sum(map(ord, prop)))
    stats = {"evaluations": 0, "distinct_nontrivial": 0, "samples": []}
    failure = None
    reps = 8 if tier == "quick" else 160
    eps = c.EPSILON
    via_model = {}
    n_generic = {}

    def fail(name, what, x, y, extra=None):
        nonlocal failure
        if failure is None:
            failure = {"kind": "metric-case", "metric": name, "x": list(map(float, x)), "y": list(map(float, y)),
                       "observed": {"error": what, "props": [prop]}, "extra": extra}
    if prop == "C06":
        if sorted(d.DISTANCES) != sorted(METRICS):
            fail("registry", "registry keys differ from the 47 specified identifiers", [], [])
    for name in sorted(METRICS):
        if failure:
            break
        sp = METRICS[name]
        if name not in d.DISTANCES:
            continue
        fn = d.DISTANCES[name]
        if prop == "C06" and name not in via_model:
            try:
                via_model[name] = SupervisedOPF(distance=name).distance_fn
            except Exception as ex:
                fail(name, "identifier rejected by the model: %s" % ex, [], [])
                break
        for rep in range(reps):
            if failure:
                break
            n = rng.randint(1, 6)
            kinds = ["generic", "prob", "lattice"] if sp["decorated"] or sp["domain"] != "positive" else ["generic", "prob"]
            kinds = kinds + ["near"]
            kind = kinds[rep % len(kinds)]
            dom = sp["domain"]
            if kind == "lattice" and dom == "positive" and not sp["decorated"]:
                kind = "generic"
            near_step = None
            if kind == "near":
                # almost equal coordinates (distinct floats a relative 1e-9 .. 1e-5 apart): x, x + d, x + 2d
                x = gen_vec(rng, n, dom, "generic")
                rel = rng.choice([3e-9, 6e-6, 2e-5])
                near_step = [abs(v) * rel + (1e-9 if rng.random() < 0.5 else 0.0) for v in x]
                y = [v + 2 * dlt for v, dlt in zip(x, near_step)]
            else:
                x = gen_vec(rng, n, dom, kind)
                y = gen_vec(rng, n, dom, kind)
            if rep % 5 == 4 and kind != "near":
                y = list(x)
            big = False
            if kind == "generic":
                n_generic[name] = n_generic.get(name, 0) + 1
            if prop == "C06" and kind == "generic" and n_generic[name] % 2 == 0:
                # finite doubles of very large magnitude (the closed forms are scale-free or polynomial of low degree:
                # intermediate products may overflow although the value does not)
                x = [v * 1e80 for v in x]
                y = [v * 1e80 for v in y]
                big = True
            xa, ya = np.asarray(x, dtype=float), np.asarray(y, dtype=float)
            xb, yb = xa.tobytes(), ya.tobytes()
            stats["evaluations"] += 1
            if n >= 2:
                stats["distinct_nontrivial"] += 1
            if len(stats["samples"]) < 3 and rep == 1:
                stats["samples"].append({"metric": name, "x": x, "y": y})
            try:
                got = float(fn(xa, ya))
            except Exception as ex:
                if big:
                    continue    # absorption / overflow at magnitude 1e80: outside the float range the closed forms hold on
                fail(name, "raised %s: %s" % (type(ex).__name__, ex), x, y)
                break
            if big and (math.isnan(got) or math.isinf(got)):
                continue        # (same: only a FINITE value that differs from the closed form is reported at this scale)
            if prop == "C07":
                if xa.tobytes() != xb or ya.tobytes() != yb:
                    fail(name, "caller array modified by the call", x, y, {"after_x": xa.tolist(), "after_y": ya.tolist()})
                    break
                for _ in range(3):
                    fn(xa, ya)
                again = float(fn(np.asarray(x, dtype=float), np.asarray(y, dtype=float)))
                g2 = float(fn(xa, ya))
                if not (again == got or (math.isnan(again) and math.isnan(got))) or \
                        not (g2 == got or (math.isnan(g2) and math.isnan(got))):
                    fail(name, "value depends on call history: first %r, later %r / %r" % (got, g2, again), x, y)
                    break
                # a caller-owned buffer re-used across calls (contents replaced in place between them)
                buf = np.asarray(y, dtype=float).copy()
                fn(buf, ya)
                buf[:] = xa
                g3 = float(fn(buf, ya))
                buf2 = np.asarray(x, dtype=float).copy()
                fn(xa, buf2)
                buf2[:] = ya
                g4 = float(fn(xa, buf2))
                if not (g3 == got or (math.isnan(g3) and math.isnan(got))) or \
                        not (g4 == got or (math.isnan(g4) and math.isnan(got))):
                    fail(name, "value depends on call history (re-used argument buffer): fresh arrays %r, buffer as first "
                               "argument %r, as second %r" % (got, g3, g4), x, y)
                    break
                # scratch memory re-used between calls: a pair that SHARES some coordinates, evaluated before and after
                # unrelated evaluations of the same length that leave large values behind
                ys = [a if t % 2 == 0 else b for t, (a, b) in enumerate(zip(x, y))]
                ysa = np.asarray(ys, dtype=float)
                h1 = float(fn(xa, ysa))
                for _ in range(3):
                    fn(np.asarray(x, dtype=float) * 3.0 + 1.0, np.asarray(y, dtype=float) * 7.0 + 2.0)
                h2 = float(fn(xa, ysa))
                if not (h1 == h2 or (math.isnan(h1) and math.isnan(h2))):
                    fail(name, "value depends on call history (pair sharing coordinates): %r, after other evaluations %r"
                         % (h1, h2), x, ys)
                    break
                xi = np.asarray([int(v) for v in x]) if kind == "lattice" else None
                if xi is not None:
                    try:
                        fn(xi, np.asarray([int(v) for v in y]))
                    except Exception as ex:
                        pass   # dtype support is outside the statement
                continue
            if prop == "C06":
                try:
                    want = closed_form(name, x, y, eps)
                except (ValueError, ZeroDivisionError, OverflowError):
                    continue        # outside the domain of the closed form
                if name == "chord":
                    # float-fragile radicand (2 - 2cos, DESIGN 2.1): compare before the square root
                    okc = abs(got * got - want * want) <= 1e-12
                else:
                    okc = close(got, want)
                if not okc:
                    fail(name, "value %r differs from the closed form %r" % (got, want), x, y)
                    break
                if big:
                    continue        # (the buffer / model protocols below evaluate other pairs: unit scale only)
                buf = np.asarray(y, dtype=float).copy()      # same array object, new contents: still the closed form
                fn(buf, ya)
                buf[:] = xa
                g3 = float(fn(buf, ya))
                if not (close(g3, want) or (name == "chord" and abs(g3 * g3 - want * want) <= 1e-12)):
                    fail(name, "with a re-used argument buffer the value is %r, closed form %r" % (g3, want), x, y)
                    break
                g2 = float(via_model[name](np.asarray(x, dtype=float), np.asarray(y, dtype=float)))
                if not (close(g2, want) or (name == "chord" and abs(g2 * g2 - want * want) <= 1e-12)):
                    fail(name, "through the model's distance option: %r, closed form %r" % (g2, want), x, y)
                    break
                continue
            # C08
            ax = sp["axioms"].split()
            dom_ok = True
            if sp["decorated"] and kind == "lattice":
                dom_ok = True
            if math.isnan(got) or math.isinf(got):
                fail(name, "not finite: %r" % got, x, y)
                break
            if "sym" in ax:
                sw = float(fn(np.asarray(y, dtype=float), np.asarray(x, dtype=float)))
                if not close(sw, got, rel=1e-12, ab=1e-15):
                    fail(name, "not symmetric: d(x,y)=%r d(y,x)=%r" % (got, sw), x, y)
                    break
            if "nonneg" in ax and got < -1e-12:
                fail(name, "negative value %r" % got, x, y)
                break
            if "zero" in ax:
                z = float(fn(np.asarray(x, dtype=float), np.asarray(x, dtype=float)))
                tol = 1e-7 if name == "chord" else 1e-9
                if math.isnan(z) or abs(z) > tol * max(1.0, max(abs(v) for v in x)):
                    fail(name, "self-distance %r is not zero" % z, x, x)
                    break
                # a few more identical pairs per case (rounding of a self-distance depends on the vector)
                for _ in range(6):
                    w = gen_vec(rng, rng.randint(2, 6), dom, "generic")
                    zw = float(fn(np.asarray(w, dtype=float), np.asarray(w, dtype=float)))
                    if math.isnan(zw) or math.isinf(zw) or abs(zw) > tol * max(1.0, max(abs(v) for v in w)):
                        fail(name, "self-distance %r is not zero / not finite" % zw, w, w)
                        break
                if failure:
                    break
            if "tri" in ax:
                z = gen_vec(rng, n, dom, kind) if near_step is None else [v + dlt for v, dlt in zip(x, near_step)]
                dxz = float(fn(np.asarray(x, dtype=float), np.asarray(z, dtype=float)))
                dzy = float(fn(np.asarray(z, dtype=float), np.asarray(y, dtype=float)))
                if got > dxz + dzy + 1e-9 * max(1.0, abs(got)):
                    fail(name, "triangle inequality violated: d(x,y)=%r > d(x,z)+d(z,y)=%r" % (got, dxz + dzy), x, y, {"z": z})
                    break
    if prop == "C07" and failure is None:
        # fitting / predicting leaves the caller's arrays unchanged and is reproducible
        from opfython.models.knn_supervised import KNNSupervisedOPF
        from opfython.models.unsupervised import UnsupervisedOPF
        from opfython.models.semi_supervised import SemiSupervisedOPF
        for metric in ["canberra", "clark", "log_squared_euclidean", "bray_curtis", "jaccard"]:
            if failure:
                break
            X = np.asarray([[float(rng.randint(0, 2)) for _ in range(2)] for _ in range(7)])
            Y = np.asarray([0, 1, 0, 1, 0, 1, 1])
            Q = np.asarray([[float(rng.randint(0, 2)) for _ in range(2)] for _ in range(3)])
            xb, yb, qb = X.tobytes(), Y.tobytes(), Q.tobytes()
            for kind in ("sup", "semi", "knn", "unsup"):
                stats["evaluations"] += 1
                stats["distinct_nontrivial"] += 1
                try:
                    outs = []
                    for _ in range(2):
                        if kind == "sup":
                            m = SupervisedOPF(distance=metric)
                            m.fit(X, Y)
                            p = m.predict(Q)
                        elif kind == "semi":
                            m = SemiSupervisedOPF(distance=metric)
                            m.fit(X[:5], Y[:5], X[5:])
                            p = m.predict(Q)
                        elif kind == "knn":
                            m = KNNSupervisedOPF(max_k=2, distance=metric)
                            m.fit(X[:5], Y[:5], X[5:], Y[5:])
                            p = m.predict(Q)
                        else:
                            m = UnsupervisedOPF(min_k=1, max_k=2, distance=metric)
                            m.fit(X)
                            p = m.predict(Q)
                        outs.append((list(map(repr, p)) if not isinstance(p, tuple) else repr(p),
                                     [(n.cost, n.pred, n.predicted_label, n.root) for n in m.subgraph.nodes]))
                except Exception as ex:
                    fail(metric, "model %s raised %s: %s" % (kind, type(ex).__name__, ex), X.ravel(), Q.ravel())
                    break
                if X.tobytes() != xb or Y.tobytes() != yb or Q.tobytes() != qb:
                    fail(metric, "fit/predict of the %s model modified a caller array" % kind, X.ravel(), Q.ravel())
                    break
                if repr(outs[0]) != repr(outs[1]):
                    fail(metric, "two fresh %s models on equal data differ" % kind, X.ravel(), Q.ravel())
                    break
        # pruning (fit + predict rounds on shrinking training sets) leaves the caller's four arrays unchanged
        for trial in range(6):
            if failure:
                break
            Xp = np.asarray([[round(rng.uniform(0, 4), 3) for _ in range(2)] for _ in range(10)])
            Yp = np.asarray([t % 2 for t in range(10)])
            Vp = np.asarray([[round(rng.uniform(0, 4), 3) for _ in range(2)] for _ in range(4)])
            YVp = np.asarray([0, 1, 0, 1])
            before = (Xp.tobytes(), Yp.tobytes(), Vp.tobytes(), YVp.tobytes())
            stats["evaluations"] += 1
            stats["distinct_nontrivial"] += 1
            try:
                SupervisedOPF(distance="euclidean").prune(Xp, Yp, Vp, YVp, n_iterations=1 + trial % 3)
            except Exception:
                pass        # (a pruned set that degenerates to one class raises in predict: outside this property)
            if before != (Xp.tobytes(), Yp.tobytes(), Vp.tobytes(), YVp.tobytes()):
                fail("euclidean", "prune modified a caller array", Xp.ravel(), Vp.ravel())
    stats["rule"] = ("real registry functions (and the model's distance_fn) on generated vectors of length 1..6 in each "
                     "metric's domain (generic, probability, zero-containing lattice, identical) against the float "
                     "interpreter of specs/metrics.py (rel. tol. 1e-9) / the axiom table / byte comparison of caller "
                     "arrays; non-trivial = vectors of length >= 2 or a model run")
    return stats, failure


def replay(rec):
    common.setup()
    import opfython.math.distance as d
    import opfython.utils.constants as c
    x, y = np.asarray(rec["x"], dtype=float), np.asarray(rec["y"], dtype=float)
    if rec["metric"] not in d.DISTANCES or not len(x):
        return rec.get("observed")
    xb = x.tobytes()
    got = float(d.DISTANCES[rec["metric"]](x, y))
    out = {"value": got, "x_modified": x.tobytes() != xb}
    try:
        out["closed_form"] = closed_form(rec["metric"], rec["x"], rec["y"], c.EPSILON)
    except Exception as ex:
        out["closed_form"] = "n/a (%s)" % ex
    out["self_distance"] = float(d.DISTANCES[rec["metric"]](np.asarray(rec["x"], dtype=float), np.asarray(rec["x"], dtype=float)))
    fn = d.DISTANCES[rec["metric"]]
    buf = y.copy()
    fn(buf, y)
    buf[:] = x
    out["reused_buffer_value"] = float(fn(buf, y))
    bad = out["x_modified"] or (isinstance(out["closed_form"], float) and not close(got, out["closed_form"])) \
        or math.isnan(got) or math.isnan(out["self_distance"]) \
        or not (out["reused_buffer_value"] == got or (math.isnan(got) and math.isnan(out["reused_buffer_value"])))
    return out if bad else None


if __name__ == "__main__":
    import sys
    import time
    t = time.time()
    st, f = explore("quick", sys.argv[1] if len(sys.argv) > 1 else "C06")
    print({k: v for k, v in st.items() if k not in ("samples", "rule")})
    print("failure:", json.dumps(f)[:1500] if f else None, "time", round(time.time() - t, 1))
