"""Shared set-up for the run-time channel: import the real library from the tree under check."""
import os
import sys

REPO = os.environ.get("VERIF_REPO", "/repo")
VERIF = os.path.dirname(os.path.dirname(os.path.abspath(__file__)))


def setup():
    """make `import opfython` resolve to the working tree under check and keep its log file out of the way"""
    if sys.path[0] != REPO:
        sys.path.insert(0, REPO)
    if VERIF not in sys.path:
        sys.path.insert(1, VERIF)
    scratch = os.path.join(VERIF, "scratch")
    os.makedirs(scratch, exist_ok=True)
    os.chdir(scratch)
    import logging
    import warnings
    logging.disable(logging.CRITICAL)
    warnings.filterwarnings("ignore")
    import opfython
    got = os.path.dirname(os.path.dirname(os.path.abspath(opfython.__file__)))
    if os.path.realpath(got) != os.path.realpath(REPO):
        raise RuntimeError("opfython imported from %s, expected %s" % (got, REPO))
    return opfython


def seed():
    try:
        return int(os.environ.get("VERIF_SEED", "0"))
    except ValueError:
        return 0
