"""Run-time channel for the supervised model (C01, C02, C03): the REAL SupervisedOPF driven over small graphs
(weight matrices injected through the public pre_distances attribute, and feature data with real metrics),
with the sidecar contracts of specs/supervised.py wrapped around fit / _find_prototypes / predict / mark_nodes and
brute-force oracles for the property statements.

Scope (bounded, stated): n <= 6 training samples, 2..3 classes, integer weight matrices with many ties
(alphabets {0,1,2}, {1,2,3}, wide) and generic distinct weights; lattice and random features with euclidean /
manhattan / squared_euclidean; query sets of <= 4 samples incl. copies of training samples; object-reuse histories
(fit, predict, re-fit on other data of the same size, predict).
"""
import itertools
import json
import random

import numpy as np

from . import common

INF = float("inf")


# ----------------------------------------------------------------------------- oracles

def minimax_costs(Wm, protos):
    n = len(Wm)
    cost = [INF] * n
    for p in protos:
        cost[p] = 0.0
    changed = True
    while changed:
        changed = False
        for a in range(n):
            for b in range(n):
                if a != b and cost[a] < INF:
                    c = max(cost[a], Wm[a][b])
                    if c < cost[b]:
                        cost[b] = c
                        changed = True
    return cost


def check_forest(opf, Wm, Y):
    """C01 on a fitted model; Wm[a][b] = weight between TRAINING POSITIONS a and b"""
    sg = opf.subgraph
    n = sg.n_nodes
    protos = [i for i in range(n) if sg.nodes[i].status == 1]
    if not protos:
        return "no prototype selected"
    opt = minimax_costs(Wm, protos)
    for i in range(n):
        nd = sg.nodes[i]
        if float(nd.cost) != float(opt[i]):
            return "node %d: recorded cost %r != optimum max-arc path cost %r" % (i, nd.cost, opt[i])
        if nd.status == 1:
            if nd.pred != -1 or nd.cost != 0 or nd.predicted_label != Y[i]:
                return "prototype %d does not keep cost 0 / NIL / own label" % i
        else:
            p = nd.pred
            if not (0 <= p < n) or p == i:
                return "node %d has invalid predecessor %r" % (i, p)
            if float(nd.cost) != float(max(sg.nodes[p].cost, Wm[p][i])):
                return "node %d: cost %r != max(cost(pred)=%r, d=%r)" % (i, nd.cost, sg.nodes[p].cost, Wm[p][i])
        # walk to the root
        seen, t = set(), i
        while sg.nodes[t].pred != -1:
            if t in seen:
                return "predecessor cycle through node %d" % t
            seen.add(t)
            t = sg.nodes[t].pred
            if not (0 <= t < n):
                return "predecessor chain of %d leaves the graph" % i
        if sg.nodes[t].status != 1:
            return "chain of node %d ends in non-prototype %d" % (i, t)
        if nd.predicted_label != Y[t]:
            return "node %d labelled %r but its root prototype %d has true label %r" % (i, nd.predicted_label, t, Y[t])
    order = list(sg.idx_nodes)
    if sorted(order) != list(range(n)):
        return "conquest order %r is not a permutation of the training samples" % (order,)
    cs = [sg.nodes[k].cost for k in order]
    if any(cs[a] > cs[a + 1] for a in range(n - 1)):
        return "conquest order is not sorted by cost: %r" % (cs,)
    return None


def spanning_trees(n):
    """all labelled spanning trees of K_n via Pruefer sequences (n <= 6)"""
    if n == 1:
        yield []
        return
    if n == 2:
        yield [(0, 1)]
        return
    for seq in itertools.product(range(n), repeat=n - 2):
        deg = [1] * n
        for s in seq:
            deg[s] += 1
        edges = []
        seq = list(seq)
        leaves = sorted(i for i in range(n) if deg[i] == 1)
        import heapq
        heapq.heapify(leaves)
        for s in seq:
            leaf = heapq.heappop(leaves)
            edges.append((min(leaf, s), max(leaf, s)))
            deg[s] -= 1
            if deg[s] == 1:
                heapq.heappush(leaves, s)
        a = heapq.heappop(leaves)
        b = heapq.heappop(leaves)
        edges.append((min(a, b), max(a, b)))
        yield edges


_TREES = {}


def mst_boundary_sets(Wm, Y):
    n = len(Wm)
    if n not in _TREES:
        _TREES[n] = list(spanning_trees(n))
    best, sets = None, set()
    for t in _TREES[n]:
        w = sum(Wm[a][b] for a, b in t)
        if best is None or w < best - 1e-12:
            best, sets = w, set()
        if abs(w - best) <= 1e-12:
            s = set()
            for a, b in t:
                if Y[a] != Y[b]:
                    s.add(a)
                    s.add(b)
            sets.add(frozenset(s))
    return sets


def check_prototypes(opf, Wm, Y):
    sg = opf.subgraph
    n = sg.n_nodes
    protos = frozenset(i for i in range(n) if sg.nodes[i].status == 1)
    if n <= 6:
        sets = mst_boundary_sets(Wm, Y)
        if protos not in sets:
            return "prototype set %s is not the set of class-boundary endpoints of any minimum spanning tree (candidates: %s)" % (
                sorted(protos), sorted(sorted(s) for s in sets)[:6])
    for cls in set(Y):
        if not any(Y[i] == cls for i in protos):
            return "class %r has no prototype" % (cls,)
    for i in protos:
        nd = sg.nodes[i]
        if nd.cost != 0 or nd.predicted_label != Y[i]:
            return "prototype %d has cost %r / label %r after training (true label %r)" % (i, nd.cost, nd.predicted_label, Y[i])
    return None


def check_predictions(opf, preds, WQ):
    """C03: WQ[t][x] = weight between training position t and query x"""
    sg = opf.subgraph
    n = sg.n_nodes
    for x, lab in enumerate(preds):
        vals = [max(sg.nodes[t].cost, WQ[t][x]) for t in range(n)]
        m = min(vals)
        ok = {sg.nodes[t].predicted_label for t in range(n) if vals[t] == m}
        if lab not in ok:
            return "query %d: predicted %r, but the exhaustive minimum %r of max(cost, d) is only attained with label(s) %s" % (
                x, lab, m, sorted(ok))
    return None


# ----------------------------------------------------------------------------- drivers

def instrument():
    from pyvc.twin import Twin
    from pyvc import driver
    driver.load_specs()
    from opfython.models.supervised import SupervisedOPF
    from opfython.core.subgraph import Subgraph
    tw = Twin()
    tw.patch_method(SupervisedOPF, "fit", "opfython.models.supervised.SupervisedOPF.fit")
    tw.patch_method(SupervisedOPF, "_find_prototypes", "opfython.models.supervised.SupervisedOPF._find_prototypes")
    tw.patch_method(SupervisedOPF, "predict", "opfython.models.supervised.SupervisedOPF.predict")
    from opfython.models.semi_supervised import SemiSupervisedOPF
    tw.patch_method(SemiSupervisedOPF, "fit", "opfython.models.semi_supervised.SemiSupervisedOPF.fit")
    return tw


def run_precomputed(case, opf=None):
    """case: {'W': full matrix over all samples, 'Y': labels of training rows, 'I_train': rows, 'I_test': rows}"""
    from opfython.models.supervised import SupervisedOPF
    Wf = np.asarray(case["W"], dtype=float)
    I_tr = np.asarray(case["I_train"], dtype=int)
    I_te = np.asarray(case["I_test"], dtype=int)
    Y = np.asarray(case["Y"], dtype=int)
    if opf is None:
        opf = SupervisedOPF()
    opf.pre_computed_distance = True
    opf.pre_distances = Wf
    X_tr = np.zeros((len(I_tr), 1))
    X_te = np.zeros((len(I_te), 1))
    opf.fit(X_tr, Y, I_tr)
    Wm = [[Wf[a][b] for b in I_tr] for a in I_tr]
    # both oracles are evaluated: one defect often breaks the forest (C01) and the prototype clauses (C02) together,
    # and each property's check must see its own oracle's verdict
    e1, e2 = check_forest(opf, Wm, list(Y)), check_prototypes(opf, Wm, list(Y))
    if e1 or e2:
        return {"stage": "fit", "error": " | ".join(e for e in (e1, e2) if e),
                "props": (["C01"] if e1 else []) + (["C02"] if e2 else [])}, opf
    if len(I_te):
        preds = opf.predict(X_te, I_te)
        WQ = [[Wf[a][b] for b in I_te] for a in I_tr]
        err = check_predictions(opf, preds, WQ)
        if err:
            return {"stage": "predict", "error": err, "props": ["C03"]}, opf
    return None, opf


ASYMMETRIC = ["kullback_leibler", "neyman", "pearson", "k_divergence"]


def run_features(case, opf=None):
    from opfython.models.supervised import SupervisedOPF
    import opfython.math.distance as d
    X = np.asarray(case["X"], dtype=float)
    Y = np.asarray(case["Y"], dtype=int)
    Q = np.asarray(case["Q"], dtype=float)
    if opf is None:
        opf = SupervisedOPF(distance=case["metric"])
    fn = d.DISTANCES[case["metric"]]
    opf.fit(X.copy(), Y.copy())
    n = len(X)
    Wm = [[float(fn(X[a].copy(), X[b].copy())) for b in range(n)] for a in range(n)]
    # both oracles are evaluated: one defect often breaks the forest (C01) and the prototype clauses (C02) together,
    # and each property's check must see its own oracle's verdict
    e1, e2 = check_forest(opf, Wm, list(Y)), check_prototypes(opf, Wm, list(Y))
    if case["metric"] in ASYMMETRIC:
        # forest / prototype oracles presuppose a symmetric dissimilarity (C01 / C02 premises); with a non-symmetric
        # metric only the prediction rule (C03: max(cost(t), d(t, x)), training sample FIRST) is checked
        e1 = e2 = None
    if e1 or e2:
        return {"stage": "fit", "error": " | ".join(e for e in (e1, e2) if e),
                "props": (["C01"] if e1 else []) + (["C02"] if e2 else [])}, opf
    if len(Q):
        preds = opf.predict(Q.copy())
        WQ = [[float(fn(X[a].copy(), Q[b].copy())) for b in range(len(Q))] for a in range(n)]
        err = check_predictions(opf, preds, WQ)
        if err:
            return {"stage": "predict", "error": err, "props": ["C03"]}, opf
    return None, opf


def run_semi(case, opf=None):
    """C15: semi-supervised fit through pre-computed weights is not meaningful for the unlabeled part (their idx is
    positional), so the semi model is driven with features and a real metric"""
    from opfython.models.semi_supervised import SemiSupervisedOPF
    from opfython.models.supervised import SupervisedOPF
    import opfython.math.distance as d
    X = np.asarray(case["X"], dtype=float)
    Y = np.asarray(case["Y"], dtype=int)
    U = np.asarray(case["U"], dtype=float).reshape(-1, X.shape[1])
    fn = d.DISTANCES[case["metric"]]
    A = np.vstack([X, U]) if len(U) else X
    n, nl = len(A), len(X)
    pre = bool(case.get("pre"))
    if pre:
        # the same metric supplied as a matrix over the whole dataset, laid out labelled-first (the only layout in which
        # the positional identifiers of the unlabeled samples, known finding F8, are the dataset rows)
        opf = SemiSupervisedOPF(distance=case["metric"])
        opf.pre_computed_distance = True
        opf.pre_distances = np.asarray([[float(fn(A[a].copy(), A[b].copy())) for b in range(n)] for a in range(n)])
        opf.fit(X.copy(), Y.copy(), U.copy(), np.arange(nl))
    else:
        if opf is None or not isinstance(opf, SemiSupervisedOPF) or opf.pre_computed_distance:
            opf = SemiSupervisedOPF(distance=case["metric"])      # (a matrix-driven object is not re-used with features)
        opf.fit(X.copy(), Y.copy(), U.copy())
    sg = opf.subgraph
    if sg.n_nodes != n:
        return {"stage": "semi", "error": "subgraph has %d nodes for %d labeled + %d unlabeled samples" % (sg.n_nodes, nl, len(U)),
                "props": ["C15"]}, opf
    Wm = [[float(fn(A[a].copy(), A[b].copy())) for b in range(n)] for a in range(n)]
    protos = [i for i in range(n) if sg.nodes[i].status == 1]
    if any(p >= nl for p in protos):
        return {"stage": "semi", "error": "an unlabeled sample became a prototype", "props": ["C15"]}, opf
    Ytrue = list(Y) + [None] * len(U)
    # true labels of prototypes are the given labels; every sample must carry the label of its root prototype
    opt = minimax_costs(Wm, protos)
    for i in range(n):
        nd = sg.nodes[i]
        if float(nd.cost) != float(opt[i]):
            return {"stage": "semi", "error": "sample %d: cost %r != optimum %r" % (i, nd.cost, opt[i]), "props": ["C15"]}, opf
        t, seen = i, set()
        while sg.nodes[t].pred != -1:
            if t in seen:
                return {"stage": "semi", "error": "cycle", "props": ["C15"]}, opf
            seen.add(t)
            t = sg.nodes[t].pred
        if sg.nodes[t].status != 1 or nd.predicted_label != Ytrue[t]:
            return {"stage": "semi", "error": "sample %d carries label %r, root %d has true label %r" % (
                i, nd.predicted_label, t, Ytrue[t]), "props": ["C15"]}, opf
    if sorted(sg.idx_nodes) != list(range(n)):
        return {"stage": "semi", "error": "not every sample was conquered exactly once", "props": ["C15"]}, opf
    # prototypes must be those of the labelled MST
    sup = SupervisedOPF(distance=case["metric"])
    sup.fit(X.copy(), Y.copy())
    sp = [i for i in range(nl) if sup.subgraph.nodes[i].status == 1]
    if sp != protos:
        return {"stage": "semi", "error": "prototypes %s differ from those of the labeled set alone %s" % (protos, sp),
                "props": ["C15"]}, opf
    if len(U) == 0:
        for i in range(nl):
            a, b = sg.nodes[i], sup.subgraph.nodes[i]
            if (a.cost, a.pred, a.status, a.predicted_label) != (b.cost, b.pred, b.status, b.predicted_label):
                return {"stage": "semi", "error": "empty unlabeled set: node %d differs from supervised training" % i,
                        "props": ["C15"]}, opf
        if list(sg.idx_nodes) != list(sup.subgraph.idx_nodes):
            return {"stage": "semi", "error": "empty unlabeled set: conquest order differs from supervised training",
                    "props": ["C15"]}, opf
    Q = np.asarray(case.get("Q") or [], dtype=float).reshape(-1, X.shape[1])
    if len(Q) and not pre:      # (queries of a matrix-driven model need their own rows in the matrix: C10)
        # prediction with the semi-supervised forest (the inherited predict): exhaustive arg-min over ALL nodes
        preds = opf.predict(Q.copy())
        WQ = [[float(fn(A[a].copy(), Q[b].copy())) for b in range(len(Q))] for a in range(n)]
        err = check_predictions(opf, preds, WQ)
        if err:
            return {"stage": "predict", "error": err, "props": ["C03", "C15"]}, opf
    return None, opf


def run_case(case, opf=None):
    try:
        if case["kind"] == "semi":
            return run_semi(case, opf)
        if case["kind"] == "precomputed":
            return run_precomputed(case, opf)
        if case["kind"] == "features":
            return run_features(case, opf)
        if case["kind"] == "history":
            o, res = None, None
            for sub in case["steps"]:
                res, o = run_case(sub, o)
                if res:
                    res["history_step"] = case["steps"].index(sub)
                    return res, o
            return None, o
    except Exception as ex:
        import traceback
        props = ["C01", "C02", "C03"]
        q = getattr(ex, "qualname", "")
        if q.endswith(".predict") or q.endswith(".mark_nodes"):
            props = ["C03"]
        elif q.endswith("._find_prototypes"):
            props = ["C02", "C01"]
        elif q.endswith("SemiSupervisedOPF.fit"):
            props = ["C15"]
        elif q.endswith(".fit"):
            cl = getattr(ex, "clause", "")
            props = ["C02"] if cl in ("a_prototypes",) else ["C01"]
            if cl in ("a_prototypes",):
                props = ["C01", "C02"]
        return {"stage": "exception", "error": "%s: %s" % (type(ex).__name__, ex), "props": props,
                "trace": traceback.format_exc()[-1500:]}, opf
    raise ValueError(case["kind"])


def gen_labels(rng, n):
    k = rng.choice([2, 2, 3]) if n >= 3 else 2
    while True:
        y = [rng.randrange(k) for _ in range(n)]
        if len(set(y)) >= 2:
            return y


def gen_precomputed(rng, tie_mode):
    n = rng.randint(2, 6)
    t = rng.randint(0, 3)
    N = n + t + rng.randint(0, 2)
    rows = list(range(N))
    rng.shuffle(rows)
    I_tr, I_te = rows[:n], rows[n:n + t]
    if rng.random() < 0.3 and t:
        I_te[0] = I_tr[0]       # a query equal to a training sample
    Wf = [[0.0] * N for _ in range(N)]
    alphabet = {"ties012": [0, 1, 2], "ties123": [1, 2, 3], "wide": list(range(1, 40))}.get(tie_mode)
    vals = None
    if tie_mode == "distinct":
        vals = rng.sample(range(1, 10 * N * N), N * N)
    for a in range(N):
        for b in range(a + 1, N):
            w = float(vals.pop()) if vals is not None else float(rng.choice(alphabet))
            Wf[a][b] = Wf[b][a] = w
    return {"kind": "precomputed", "W": Wf, "Y": gen_labels(rng, n), "I_train": I_tr, "I_test": I_te}


def gen_features(rng):
    n = rng.randint(2, 6)
    dim = rng.randint(1, 3)
    if rng.random() < 0.5:
        X = [[float(rng.randint(0, 2)) for _ in range(dim)] for _ in range(n)]   # lattice: many ties / duplicates
        Q = [[float(rng.randint(0, 2)) for _ in range(dim)] for _ in range(rng.randint(0, 3))]
    else:
        X = [[round(rng.uniform(0, 5), 3) for _ in range(dim)] for _ in range(n)]
        Q = [[round(rng.uniform(0, 5), 3) for _ in range(dim)] for _ in range(rng.randint(0, 3))]
    if Q and rng.random() < 0.3:
        Q[0] = list(X[rng.randrange(n)])
    # the statement holds at every scale of the data: very small and large magnitudes, where absolute or relative
    # tolerances (if any crept in) would bite
    sc = rng.choice([1.0, 1.0, 1.0, 1e-5, 1e3])
    if sc != 1.0:
        X = [[v * sc for v in row] for row in X]
        Q = [[v * sc for v in row] for row in Q]
    metric = rng.choice(["euclidean", "manhattan", "squared_euclidean", "log_squared_euclidean", "chebyshev"])
    if rng.random() < 0.2:
        # the statement says "all metrics": non-symmetric ones included (argument order of the arc weight matters)
        metric = rng.choice(ASYMMETRIC)
        X = [[round(rng.uniform(0.2, 3), 3) for _ in range(dim)] for _ in range(n)]
        Q = [[round(rng.uniform(0.2, 3), 3) for _ in range(dim)] for _ in range(rng.randint(1, 3))]
        sc = 1.0
    return {"kind": "features", "X": X, "Y": gen_labels(rng, n), "Q": Q, "scale": sc, "metric": metric}


def gen_semi(rng):
    c = gen_features(rng)
    if c["metric"] in ASYMMETRIC:       # (the forest oracle presupposes a symmetric dissimilarity)
        c["metric"] = "euclidean"
    dim = len(c["X"][0])
    nu = rng.choice([0, 1, 2, 3])
    if rng.random() < 0.5:
        U = [[float(rng.randint(0, 2)) for _ in range(dim)] for _ in range(nu)]
    else:
        U = [[round(rng.uniform(0, 5), 3) for _ in range(dim)] for _ in range(nu)]
    U = [[v * c["scale"] for v in row] for row in U]
    return {"kind": "semi", "X": c["X"], "Y": c["Y"], "U": U, "metric": c["metric"], "Q": c["Q"], "pre": rng.random() < 0.3}


def gen_semi_bridge(rng):
    """labelled samples of two classes far apart, an unlabeled chain leading from one class right up to a labelled
    sample of the other class, and unlabeled samples beyond it (their optimum path passes through that labelled sample)"""
    step = rng.choice([0.5, 1.0])
    far = rng.choice([4, 6, 8])
    X = [[0.0, 0.0], [0.0, float(far)], [3.0, 0.0]]
    Y = [0, 0, 1]
    if rng.random() < 0.5:
        X.append([5.0, -1.0])
        Y.append(1)
    U = []
    y = step
    while y < far - 1e-9:
        U.append([3.0, round(y, 3)])
        y += step
    x = 3.0 - step
    while x > step - 1e-9:
        U.append([round(x, 3), float(far)])
        x -= step
    for k in range(rng.randint(1, 3)):
        U.append([round(-step * (k + 1), 3), float(far)])
    if rng.random() < 0.5:
        rng.shuffle(U)
    return {"kind": "semi", "X": X, "Y": Y, "U": U, "metric": rng.choice(["euclidean", "manhattan", "squared_euclidean"])}


def nontrivial(case):
    if case["kind"] == "history":
        return True
    n = len(case["Y"])
    return n >= 3


def explore(tier="quick", prop="C01"):
    common.setup()
    tw = instrument()
    rng = random.Random(common.seed() * 7919 + 17)
    stats = {"evaluations": 0, "distinct_nontrivial": 0, "samples": []}
    seen = set()
    failure = None
    n_cases = 640 if tier == "quick" else 8000
    try:
        # exhaustive tiny scope: n = 3, weights in {0,1,2}, all labelings with 2 classes
        tiny = []
        for w01, w02, w12 in itertools.product([0, 1, 2], repeat=3):
            for y in ([0, 0, 1], [0, 1, 0], [1, 0, 0], [0, 1, 2]):
                Wf = [[0.0, w01, w02, 1.0], [w01, 0.0, w12, 2.0], [w02, w12, 0.0, 0.0], [1.0, 2.0, 0.0, 0.0]]
                tiny.append({"kind": "precomputed", "W": Wf, "Y": y, "I_train": [0, 1, 2], "I_test": [3]})
        cases = tiny if tier == "thorough" else tiny[::3]
        for i in range(n_cases):
            r = i % 8
            if prop == "C15" and r < 2:
                cases.append(gen_semi_bridge(rng))
            elif prop == "C15" and r < 6:
                cases.append(gen_semi(rng))
            elif r < 4:
                cases.append(gen_precomputed(rng, ["ties012", "ties123", "wide", "distinct"][r]))
            elif r < 7:
                cases.append(gen_features(rng))
            else:
                # one model OBJECT used repeatedly: fit, predict, re-fit on different data (of the same size two times
                # out of three), predict ... - with pre-computed weights, with a metric, and semi-supervised
                flavour = (i // 8) % 3 if prop != "C15" else 2
                if flavour == 0:
                    a, b = gen_precomputed(rng, "wide"), gen_precomputed(rng, "distinct")
                    while len(b["Y"]) != len(a["Y"]):
                        b = gen_precomputed(rng, "distinct")
                elif flavour == 1:
                    a, b = gen_features(rng), gen_features(rng)
                    tries = 0
                    while (len(b["Y"]) != len(a["Y"]) or len(b["X"][0]) != len(a["X"][0])) and tries < 200:
                        b = gen_features(rng)
                        tries += 1
                    b["metric"] = a["metric"]
                else:
                    a, b = gen_semi(rng), gen_semi(rng)
                    tries = 0
                    while (len(b["X"][0]) != len(a["X"][0]) or
                           (i % 3 and len(b["Y"]) + len(b["U"]) != len(a["Y"]) + len(a["U"]))) and tries < 300:
                        b = gen_semi(rng)
                        tries += 1
                    b["metric"] = a["metric"]
                    for cs in (a, b):
                        if not cs["Q"]:
                            cs["Q"] = [list(cs["X"][0]), [v + 0.5 for v in cs["X"][-1]]]
                cases.append({"kind": "history", "steps": [a, b, a]})
        for case in cases:
            res, _ = run_case(case)
            stats["evaluations"] += 1
            key = json.dumps(case, sort_keys=True)
            if nontrivial(case) and key not in seen:
                seen.add(key)
                stats["distinct_nontrivial"] += 1
                if len(stats["samples"]) < 2 and case["kind"] != "history":
                    stats["samples"].append(case)
            if res is None and tw.failures:
                f = tw.failures[0]
                res = {"stage": "contract", "error": str(f), "props": ["C01", "C02", "C03"]}
            if res is not None and prop not in res.get("props", [prop]):
                stats.setdefault("other_property_failures", []).append(res.get("props"))
                tw.failures.clear()
                res = None
            if res is not None:
                failure = {"kind": "supervised-case", "case": case, "observed": res}
                break
    finally:
        tw.unpatch()
    stats["clause_hits"] = dict(sorted(tw.hits.items()))
    stats["pre_unmet"] = dict(tw.pre_unmet)
    stats["rule"] = ("real SupervisedOPF.fit/predict on generated cases: n<=6 training samples, pre-computed symmetric "
                     "weight matrices (tie alphabets {0,1,2},{1,2,3}, wide, all-distinct) with shuffled index arrays, "
                     "lattice/random features with 5 symmetric metrics (+ 4 non-symmetric ones for the prediction rule), queries incl. copies of training samples, and "
                     "fit/predict/re-fit histories on one model object (pre-computed, metric and semi-supervised "
                     "flavours; same and different sizes); oracles: brute-force minimax path costs, all spanning "
                     "trees (Pruefer) for the MST-boundary prototype set, exhaustive arg-min for predictions; "
                     "non-trivial = distinct case with >= 3 training samples or a history")
    return stats, failure


def replay(rec):
    common.setup()
    tw = instrument()
    tw.raise_on_fail = True
    try:
        res, _ = run_case(rec["case"])
        if res is None and tw.failures:
            res = {"stage": "contract", "error": str(tw.failures[0])}
    finally:
        tw.unpatch()
    return res


if __name__ == "__main__":
    import sys
    import time
    t = time.time()
    st, f = explore(sys.argv[1] if len(sys.argv) > 1 else "quick")
    print({k: v for k, v in st.items() if k not in ("clause_hits", "samples")})
    print("hits", len(st["clause_hits"]), "failure:", json.dumps(f)[:1500] if f else None, "time", time.time() - t)
