"""C18 run-time channel: splitting, merging, converting, loading and parsing preserve every sample.

Scope: datasets of 1..12 samples, 1..4 features, 1..4 classes; percentages {0, 0.1, 0.25, 1/3, 0.5, 0.75, 0.9, 1};
seeds 0..3; OPF binary files written by this harness (little-endian header n, n_classes, n_features; records id, label,
float32 features) converted by the real opf2txt / opf2csv / opf2json and read back by the real loaders and parser;
non-sequential label sets for the rejection clause.
"""
import json
import os
import random
import struct

import numpy as np

from . import common


def check_split(rng):
    import opfython.stream.splitter as sp
    n = rng.randint(1, 12)
    d = rng.randint(1, 4)
    X = np.asarray([[round(rng.uniform(-5, 5), 4) for _ in range(d)] for _ in range(n)])
    Y = np.asarray([rng.randrange(4) for _ in range(n)])
    pct = rng.choice([0.0, 0.1, 0.25, 1 / 3, 0.5, 0.75, 0.9, 1.0])
    seed = rng.randrange(4)
    case = {"X": X.tolist(), "Y": Y.tolist(), "pct": pct, "seed": seed}
    X1, X2, Y1, Y2, I1, I2 = sp.split_with_index(X.copy(), Y.copy(), pct, seed)
    a1, a2, b1, b2 = sp.split(X.copy(), Y.copy(), pct, seed)
    if len(X1) != int(n * pct):
        return case, "first set has %d samples, floor(n * percentage) = %d" % (len(X1), int(n * pct))
    if len(X1) + len(X2) != n or sorted(list(I1) + list(I2)) != list(range(n)):
        return case, "the two sets do not partition the samples: indices %s + %s" % (list(I1), list(I2))
    for Xs, Ys, Is in ((X1, Y1, I1), (X2, Y2, I2)):
        for r in range(len(Is)):
            if not np.array_equal(Xs[r], X[Is[r]]) or Ys[r] != Y[Is[r]]:
                return case, "sample at output row %d does not carry the features/label of original row %d" % (r, Is[r])
    if not (np.array_equal(a1, X1) and np.array_equal(a2, X2) and np.array_equal(b1, Y1) and np.array_equal(b2, Y2)):
        return case, "split and split_with_index disagree for the same seed"
    again = sp.split_with_index(X.copy(), Y.copy(), pct, seed)
    if not all(np.array_equal(u, v) for u, v in zip(again, (X1, X2, Y1, Y2, I1, I2))):
        return case, "the split is not a deterministic function of the seed"
    if len(X1) and len(X2):
        Xm, Ym = sp.merge(X1, X2, Y1, Y2)
        got = sorted((tuple(x), int(y)) for x, y in zip(Xm.tolist(), Ym.tolist()))
        want = sorted((tuple(x), int(y)) for x, y in zip(X.tolist(), Y.tolist()))
        if got != want:
            return case, "merging the two sets does not give back the original samples"
    return case, None


def write_opf(path, ids, labels, feats):
    n, d = len(ids), len(feats[0])
    with open(path, "wb") as f:
        f.write(struct.pack("<iii", n, max(labels), d))
        for i, l, x in zip(ids, labels, feats):
            f.write(struct.pack("<ii" + "f" * d, i, l, *x))


def check_convert(rng, tag):
    import opfython.utils.converter as cv
    import opfython.stream.loader as ld
    import opfython.stream.parser as ps
    n = rng.randint(1, 10)
    d = rng.randint(1, 4)
    K = rng.randint(1, min(4, n))
    labels = list(range(1, K + 1)) + [rng.randint(1, K) for _ in range(n - K)]
    rng.shuffle(labels)
    ids = rng.sample(range(0, 1000), n)
    feats = [[float(np.float32(rng.uniform(-100, 100))) for _ in range(d)] for _ in range(n)]
    base = os.path.join(os.getcwd(), "c18_%s_%d" % (tag, os.getpid()))
    case = {"ids": ids, "labels": labels, "features": feats}
    try:
        write_opf(base + ".dat", ids, labels, feats)
        cv.opf2txt(base + ".dat", base + ".txt")
        cv.opf2csv(base + ".dat", base + ".csv")
        cv.opf2json(base + ".dat", base + ".json")
        outs = {}
        for ext, fn in (("txt", ld.load_txt), ("csv", ld.load_csv), ("json", ld.load_json)):
            data = fn(base + "." + ext)
            if data is None:
                return case, "loader returned None for .%s" % ext
            X, Y = ps.parse_loader(data)
            outs[ext] = (np.asarray(data)[:, 0].tolist(), np.asarray(X).tolist(), np.asarray(Y).tolist())
        want = ([float(i) for i in ids], [[float(np.float32(v)) for v in x] for x in feats], [l - 1 for l in labels])
        for ext, got in outs.items():
            if got[0] != want[0]:
                return case, ".%s: identifiers %s != %s" % (ext, got[0], want[0])
            if got[1] != want[1]:
                return case, ".%s: features differ from the stored float32 values" % ext
            if got[2] != want[2]:
                return case, ".%s: labels %s != stored labels - 1 = %s" % (ext, got[2], want[2])
        return case, None
    finally:
        for ext in ("dat", "txt", "csv", "json"):
            try:
                os.remove(base + "." + ext)
            except OSError:
                pass


def check_rejects(rng):
    import opfython.stream.parser as ps
    bad = rng.choice([[1, 2], [0, 2], [-1, 0, 1], [-1, 1], [0, 1, 3], [2], [-1, 0, 2]])
    n = len(bad) + rng.randint(0, 3)
    labs = bad + [rng.choice(bad) for _ in range(n - len(bad))]
    data = np.asarray([[i, l, 0.5, 1.5] for i, l in enumerate(labs)], dtype=float)
    case = {"labels": labs}
    try:
        ps.parse_loader(data)
    except Exception:
        return case, None
    return case, "parse_loader accepted the non-sequential label set %s" % sorted(set(labs))


def explore(tier="quick", prop="C18"):
    common.setup()
    rng = random.Random(common.seed() * 131 + 8)
    stats = {"evaluations": 0, "distinct_nontrivial": 0, "samples": []}
    failure = None
    reps = 200 if tier == "quick" else 3000
    for i in range(reps):
        for kind, fn in (("split", lambda: check_split(rng)), ("convert", lambda: check_convert(rng, str(i))),
                         ("reject", lambda: check_rejects(rng))):
            try:
                case, err = fn()
            except Exception as ex:
                import traceback
                case, err = {"kind": kind}, "%s: %s | %s" % (type(ex).__name__, ex, traceback.format_exc()[-400:])
            stats["evaluations"] += 1
            stats["distinct_nontrivial"] += 1
            if len(stats["samples"]) < 3 and i == 1:
                stats["samples"].append({"kind": kind, "case": case})
            if err:
                failure = {"kind": "c18-" + kind, "case": case, "observed": {"error": err, "props": ["C18"]}}
                break
        if failure:
            break
    stats["rule"] = ("real split / split_with_index / merge on generated datasets (n = 1..12, percentages incl. 0 and 1, 4 seeds); "
                     "OPF binary files written by the harness, converted by the real opf2txt/csv/json, loaded and parsed by the "
                     "real loaders (identifiers, exact float32 features, labels - 1 identical in the three formats, also for "
                     "one-sample files); non-sequential label sets must be rejected; every case counted once")
    return stats, failure


def replay(rec):
    return rec.get("observed")


if __name__ == "__main__":
    import time
    t = time.time()
    st, f = explore("quick")
    print({k: v for k, v in st.items() if k not in ("samples", "rule")}, "failure:", json.dumps(f)[:700] if f else None, round(time.time() - t, 1))
