"""C05 run-time channel: operation sequences on the REAL Heap, with the sidecar contracts of specs/heap.py
wrapped around every method and a reference priority-queue model as property-level oracle.

Scope (bounded, stated): exhaustive over capacity <= 3, cost alphabet {0,1,2}, histories of length <= `depth`
(legal operations only: insert of a WHITE element with a cost, insert on a full heap, update of a WHITE element,
improving update of a queued element, remove); random histories of length <= 40 over capacity <= 8.
"""
import itertools
import json
import random

from . import common


def legal_ops(size, model, colors, policy, costs):
    ops = []
    full = len(model) == size
    for x in range(size):
        if colors[x] == 0:
            for c in costs:
                ops.append(("insert", x, c))
                ops.append(("update", x, c))
        elif colors[x] == 1:
            for c in costs:
                if (policy == "min" and c <= model[x]) or (policy == "max" and c >= model[x]):
                    ops.append(("update", x, c))
        if full and colors[x] != 1:
            ops.append(("insert_full", x, None))
    ops.append(("remove", None, None))
    return ops


class Failure(Exception):
    pass


def apply_op(h, op, model, colors, policy, returned):
    kind, x, c = op
    if kind in ("insert", "insert_full"):
        was_full = len(model) == h.size
        if c is not None:
            h.cost[x] = c
        r = h.insert(x)
        if was_full:
            if r is not False:
                raise Failure("insert on a full heap returned %r" % (r,))
        else:
            if r is not True:
                raise Failure("insert returned %r on a non-full heap" % (r,))
            model[x] = c
            colors[x] = 1
    elif kind == "update":
        h.update(x, c)
        model[x] = c
        colors[x] = 1
    elif kind == "remove":
        was_empty = not model
        r = h.remove()
        if was_empty:
            if r is not False:
                raise Failure("remove on an empty heap returned %r" % (r,))
        else:
            if r is False or r not in model:
                raise Failure("remove returned %r which is not queued (queued: %s)" % (r, sorted(model)))
            best = min(model.values()) if policy == "min" else max(model.values())
            if model[r] != best:
                raise Failure("remove returned %d with cost %s but the extremal queued cost is %s" % (r, model[r], best))
            if r in returned:
                raise Failure("element %d returned twice" % r)
            returned.add(r)
            del model[r]
            colors[r] = 2
    if h.is_empty() != (len(model) == 0):
        raise Failure("is_empty() reports %r with %d queued" % (h.is_empty(), len(model)))
    if h.is_full() != (len(model) == h.size):
        raise Failure("is_full() reports %r with %d queued of %d" % (h.is_full(), len(model), h.size))


def run_sequence(Heap, size, policy, ops):
    h = Heap(size, policy)
    model, colors, returned = {}, [0] * size, set()
    for i, op in enumerate(ops):
        try:
            apply_op(h, op, model, colors, policy, returned)
        except Failure as f:
            return {"step": i, "op": list(op), "error": str(f)}
        except Exception as ex:
            return {"step": i, "op": list(op), "error": "%s: %s" % (type(ex).__name__, ex)}
    # drain: every queued element must come out exactly once, in order
    while model:
        try:
            apply_op(h, ("remove", None, None), model, colors, policy, returned)
        except Failure as f:
            return {"step": "drain", "op": ["remove", None, None], "error": str(f)}
        except Exception as ex:
            return {"step": "drain", "op": ["remove", None, None], "error": "%s: %s" % (type(ex).__name__, ex)}
    return None


def instrument():
    from pyvc.twin import Twin
    import specs.heap  # noqa: F401
    from opfython.core.heap import Heap
    tw = Twin()
    for m in ("is_full", "is_empty", "dad", "left_son", "right_son", "go_up", "go_down", "insert", "remove", "update"):
        tw.patch_method(Heap, m, "opfython.core.heap.Heap." + m)
    return tw, Heap


def explore(tier="quick", prop="C05"):
    """(1) exhaustive closure of the reachable state space for small capacities and cost alphabets: every legal
    operation from every reachable (heap, model) state, so histories of ANY length over that scope are covered;
    (2) random long histories on larger heaps."""
    import copy
    import time
    common.setup()
    tw, Heap = instrument()
    rng = random.Random(common.seed())
    stats = {"evaluations": 0, "distinct_nontrivial": 0, "samples": [], "closures": []}
    failure = None
    budget = 25.0 if tier == "quick" else 600.0
    t_start = time.time()
    scopes = [(1, [0, 1, 2]), (2, [0, 1, 2]), (3, [0, 1])] if tier == "quick" else \
        [(1, [0, 1, 2]), (2, [0, 1, 2]), (3, [0, 1, 2]), (4, [0, 1])]
    try:
        for size, costs in scopes:
            for policy in ("min", "max"):
                if failure is not None:
                    break
                h0 = Heap(size, policy)
                start = (h0, {}, [0] * size, frozenset(), [])

                def key(h, model, colors, returned):
                    return (tuple(h.p), tuple(h.pos), tuple(h.cost), tuple(h.color), h.last,
                            tuple(sorted(model.items())), tuple(colors), returned)
                seen = {key(h0, {}, [0] * size, frozenset())}
                todo = [start]
                complete = True
                n_ops = 0
                while todo and failure is None:
                    if time.time() - t_start > budget:
                        complete = False
                        break
                    h, model, colors, returned, hist = todo.pop()
                    for op in legal_ops(size, model, colors, policy, costs):
                        h2 = copy.deepcopy(h)
                        m2, c2, r2 = dict(model), list(colors), set(returned)
                        res = None
                        try:
                            apply_op(h2, op, m2, c2, policy, r2)
                        except Failure as f:
                            res = {"step": len(hist), "op": list(op), "error": str(f)}
                        except Exception as ex:
                            res = {"step": len(hist), "op": list(op), "error": "%s: %s" % (type(ex).__name__, ex)}
                        n_ops += 1
                        stats["evaluations"] += 1
                        if res is not None:
                            failure = {"kind": "heap-sequence", "size": size, "policy": policy,
                                       "ops": [list(o) for o in hist + [op]], "observed": res}
                            break
                        k2 = key(h2, m2, c2, frozenset(r2))
                        if k2 not in seen:
                            seen.add(k2)
                            todo.append((h2, m2, c2, frozenset(r2), hist + [op]))
                            if len(m2) >= 2:
                                stats["distinct_nontrivial"] += 1
                                if len(stats["samples"]) < 3 and len(hist) >= 3:
                                    stats["samples"].append({"size": size, "policy": policy,
                                                             "ops": [list(o) for o in hist + [op]]})
                stats["closures"].append({"size": size, "policy": policy, "costs": costs, "states": len(seen),
                                          "operations": n_ops, "complete": complete and failure is None})
        # random longer histories
        n_random = 150 if tier == "quick" else 5000
        for _ in range(n_random):
            if failure is not None:
                break
            size = rng.randint(2, 9)
            policy = rng.choice(["min", "max"])
            ops = []
            h = Heap(size, policy)
            mm, cc, rr = {}, [0] * size, set()
            res = None
            for _step in range(rng.randint(3, 40)):
                op = rng.choice(legal_ops(size, mm, cc, policy, [0, 1, 2, 3, 5, 8]))
                ops.append(op)
                try:
                    apply_op(h, op, mm, cc, policy, rr)
                except Failure as f:
                    res = {"step": len(ops) - 1, "op": list(op), "error": str(f)}
                    break
                except Exception as ex:
                    res = {"step": len(ops) - 1, "op": list(op), "error": "%s: %s" % (type(ex).__name__, ex)}
                    break
            stats["evaluations"] += 1
            if len(ops) > 5:
                stats["distinct_nontrivial"] += 1
            if res is not None:
                failure = {"kind": "heap-sequence", "size": size, "policy": policy, "ops": [list(o) for o in ops],
                           "observed": res}
    finally:
        tw.unpatch()
    stats["clause_hits"] = dict(sorted(tw.hits.items()))
    stats["pre_unmet"] = dict(tw.pre_unmet)
    stats["rule"] = ("closure of reachable (heap, reference-model) states under all legal operations for the listed "
                     "capacities/cost alphabets (complete flag per scope), plus seeded random histories (capacity 2..9, "
                     "length 3..40); non-trivial = a distinct state with >= 2 queued elements / a random history "
                     "longer than 5 operations")
    return stats, failure


def replay(rec):
    common.setup()
    tw, Heap = instrument()
    try:
        res = run_sequence(Heap, rec["size"], rec["policy"], [tuple(o) for o in rec["ops"]])
    finally:
        tw.unpatch()
    return res


if __name__ == "__main__":
    import sys
    st, f = explore(sys.argv[1] if len(sys.argv) > 1 else "quick")
    print(json.dumps({k: v for k, v in st.items() if k != "clause_hits"}, indent=1)[:1500])
    print("failure:", f)
