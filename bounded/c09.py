"""C09 run-time channel: relational contract on the real models - a sample predicted alone, at every position of
batches with other samples and duplicates, and after earlier predict calls, must always get the same label (and cluster).

Scope: four model kinds, n <= 10 training samples (lattice with ties and random), 3 metrics, best_k up to 3, batches of
up to 6 queries incl. copies of training samples and far outliers, two consecutive predict calls on one object.
"""
import json
import random

import numpy as np

from . import common
from . import knn as KH


def build(kind, rng):
    from opfython.models.supervised import SupervisedOPF
    from opfython.models.semi_supervised import SemiSupervisedOPF
    from opfython.models.knn_supervised import KNNSupervisedOPF
    from opfython.models.unsupervised import UnsupervisedOPF
    metric = rng.choice(["euclidean", "manhattan", "squared_euclidean"])
    n = rng.randint(5, 10)
    dim = 2
    if rng.random() < 0.5:
        X = np.asarray([[float(rng.randint(0, 3)) for _ in range(dim)] for _ in range(n)])
    else:
        X = np.asarray([[round(rng.uniform(0, 4), 3) for _ in range(dim)] for _ in range(n)])
    Y = np.asarray([i % 2 for i in range(n)])
    rng.shuffle(Y)
    if len(set(Y.tolist())) < 2:
        Y[0], Y[1] = 0, 1
    if kind == "sup":
        m = SupervisedOPF(distance=metric)
        m.fit(X.copy(), Y.copy())
    elif kind == "semi":
        m = SemiSupervisedOPF(distance=metric)
        U = np.asarray([[round(rng.uniform(0, 4), 3) for _ in range(dim)] for _ in range(3)])
        m.fit(X.copy(), Y.copy(), U)
    elif kind == "knn":
        m = KNNSupervisedOPF(max_k=min(3, n - 2), distance=metric)
        XV = np.asarray([[round(rng.uniform(0, 4), 3) for _ in range(dim)] for _ in range(4)])
        YV = np.asarray([0, 1, 0, 1])
        m.fit(X.copy(), Y.copy(), XV, YV)
    else:
        m = UnsupervisedOPF(min_k=1, max_k=min(3, n - 2), distance=metric)
        m.fit(X.copy(), Y.copy())
        m.propagate_labels()
    Q = [list(X[rng.randrange(n)]) if rng.random() < 0.35 else
         ([round(rng.uniform(-1, 5), 3) for _ in range(dim)] if rng.random() < 0.8 else [40.0, -35.0])
         for _ in range(rng.randint(2, 6))]
    return m, X, Y, np.asarray(Q), metric


def answers(m, kind, Q):
    out = m.predict(np.asarray(Q, dtype=float).copy())
    if kind == "unsup":
        return list(zip(out[0], out[1]))
    return list(out)


def check_model(m, kind, Q, rng):
    alone = [answers(m, kind, Q[s:s + 1])[0] for s in range(len(Q))]
    for rep in range(3):
        order = list(range(len(Q)))
        rng.shuffle(order)
        order = order + [order[0]]          # a duplicate
        batch = np.asarray([Q[s] for s in order])
        got = answers(m, kind, batch)
        for pos, s in enumerate(order):
            if got[pos] != alone[s]:
                return {"error": "sample %s predicted %r alone but %r at position %d of a batch of %d" % (
                    Q[s].tolist(), alone[s], got[pos], pos, len(order)), "batch": batch.tolist(), "props": ["C09"]}
    again = [answers(m, kind, Q[s:s + 1])[0] for s in range(len(Q))]
    if again != alone:
        return {"error": "predictions changed after earlier predict calls: %r -> %r" % (alone, again), "props": ["C09"]}
    return None


def explore(tier="quick", prop="C09"):
    common.setup()
    KH.consts()
    rng = random.Random(common.seed() * 613 + 3)
    stats = {"evaluations": 0, "distinct_nontrivial": 0, "samples": []}
    failure = None
    reps = 60 if tier == "quick" else 600
    for r in range(reps):
        for kind in ("sup", "semi", "knn", "unsup"):
            try:
                m, X, Y, Q, metric = build(kind, rng)
                res = check_model(m, kind, Q, rng)
            except Exception as ex:
                import traceback
                res = {"error": "%s: %s" % (type(ex).__name__, ex), "trace": traceback.format_exc()[-800:], "props": ["C09"]}
                X = Y = Q = np.zeros((0,))
                metric = "?"
            stats["evaluations"] += 1
            stats["distinct_nontrivial"] += 1
            if len(stats["samples"]) < 2:
                stats["samples"].append({"kind": kind, "metric": metric, "X": X.tolist(), "Q": Q.tolist()})
            if res:
                failure = {"kind": "c09-case", "model": kind, "metric": metric, "X": X.tolist(), "Y": np.asarray(Y).tolist(),
                           "Q": Q.tolist(), "observed": res}
                break
        if failure:
            break
    stats["rule"] = ("four model kinds fitted on generated data (5..10 samples, lattice / random, 3 metrics); every query is "
                     "predicted alone, inside 3 shuffled batches with a duplicate, and again after those calls; all answers must "
                     "coincide; every case is non-trivial (>= 2 queries)")
    return stats, failure


def replay(rec):
    common.setup()
    return rec.get("observed")


if __name__ == "__main__":
    import time
    t = time.time()
    st, f = explore("quick")
    print({k: v for k, v in st.items() if k not in ("samples", "rule")}, "failure:", json.dumps(f)[:800] if f else None, round(time.time() - t, 1))
