"""C17 run-time channel: relevance marking and pruning on the real SupervisedOPF, and the state of `learn`.

Scope: n <= 9 training samples (lattice with ties / random), 2 classes, 3 metrics, validation batches <= 5,
prune with 1..3 iterations; learn with 1..3 iterations on sets with and without validation errors.
"""
import json
import random

import numpy as np

from . import common


def gen(rng):
    n = rng.randint(4, 9)
    dim = rng.randint(1, 2)
    if rng.random() < 0.5:
        X = [[float(rng.randint(0, 3)) for _ in range(dim)] for _ in range(n)]
    else:
        X = [[round(rng.uniform(0, 4), 3) for _ in range(dim)] for _ in range(n)]
    Y = [i % 2 for i in range(n)]
    rng.shuffle(Y)
    V = [list(rng.choice(X)) if rng.random() < 0.3 else [round(rng.uniform(-1, 5), 3) for _ in range(dim)]
         for _ in range(rng.randint(2, 5))]
    YV = [rng.randrange(2) for _ in V]
    YV[0], YV[1] = 0, 1          # the validation labels cover both classes (opf_accuracy needs that)
    case = {"X": X, "Y": Y, "V": V, "YV": YV, "metric": rng.choice(["euclidean", "manhattan", "squared_euclidean"]),
            "iters": rng.randint(1, 3)}
    if rng.random() < 0.4:
        ids = list(range(len(X)))
        rng.shuffle(ids)
        case["I"] = ids
    return case


def expected_relevant(opf, fn, X, V):
    sg = opf.subgraph
    n = sg.n_nodes
    want = set()
    for q in V:
        vals = [max(sg.nodes[t].cost, float(fn(np.asarray(X[t], dtype=float), np.asarray(q, dtype=float)))) for t in range(n)]
        # the conqueror is the first sample in conquest order attaining the minimum
        best = min(vals)
        t = next(k for k in sg.idx_nodes if vals[k] == best)
        while True:
            want.add(t)
            if sg.nodes[t].pred == -1:
                break
            t = sg.nodes[t].pred
    return want


def run_case(case):
    from opfython.models.supervised import SupervisedOPF
    import opfython.math.distance as d
    fn = d.DISTANCES[case["metric"]]
    X, Y = np.asarray(case["X"], dtype=float), np.asarray(case["Y"], dtype=int)
    V, YV = np.asarray(case["V"], dtype=float), np.asarray(case["YV"], dtype=int)
    opf = SupervisedOPF(distance=case["metric"])
    if case.get("I"):
        # dataset-wide identifiers that are not the positions 0..n-1 (relevance is about POSITIONS in the training set)
        opf.fit(X.copy(), Y.copy(), np.asarray(case["I"], dtype=int))
    else:
        opf.fit(X.copy(), Y.copy())
    if any(nd.relevant != 0 for nd in opf.subgraph.nodes):
        return {"error": "a freshly fitted model already has relevant samples", "props": ["C17"]}
    opf.predict(V.copy())
    got = {i for i, nd in enumerate(opf.subgraph.nodes) if nd.relevant != 0}
    want = expected_relevant(opf, fn, case["X"], case["V"])
    if got != want:
        return {"error": "relevant samples %s, but conquerors and their ancestors are %s" % (sorted(got), sorted(want)),
                "props": ["C17"]}
    # prune
    opf2 = SupervisedOPF(distance=case["metric"])
    Xp, Yp = X.copy(), Y.copy()
    try:
        opf2.prune(Xp, Yp, V.copy(), YV.copy(), n_iterations=case["iters"])
    except Exception as ex:
        # a pruned set with a single class makes OPF accuracy / fit degenerate: outside the statement, only report crashes
        # that are not caused by that
        left = {nd.label for nd in opf2.subgraph.nodes} if opf2.subgraph else set()
        if len(left) >= 2:
            return {"error": "prune raised %s: %s" % (type(ex).__name__, ex), "props": ["C17"]}
        return None
    pairs = [(tuple(nd.features.tolist()), int(nd.label)) for nd in opf2.subgraph.nodes]
    orig = [(tuple(x), int(y)) for x, y in zip(X.tolist(), Y.tolist())]
    pool = list(orig)
    for p in pairs:
        if p in pool:
            pool.remove(p)
        else:
            return {"error": "pruned training set contains %r which is not a sample of the original set (multiset)" % (p,),
                    "props": ["C17"]}
    # "pruning retains ONLY such samples": reference rounds with fresh models - S_0 = the original set, S_{t+1} = the
    # samples of S_t flagged relevant after fit(S_t) + predict(V) (the flags themselves are checked against the
    # conqueror / ancestor oracle above) - the model left behind must be built on exactly S_T, rows in order
    cur_X, cur_Y = X.copy(), Y.copy()
    try:
        for t in range(case["iters"] + 1):
            ref = SupervisedOPF(distance=case["metric"])
            ref.fit(cur_X.copy(), cur_Y.copy())
            if t == case["iters"]:
                break
            ref.predict(V.copy())
            keep = [i for i, nd in enumerate(ref.subgraph.nodes) if nd.relevant != 0]
            cur_X, cur_Y = cur_X[keep], cur_Y[keep]
    except Exception:
        return None             # a reference round degenerated (single class left): outside the statement
    want_pairs = [(tuple(x), int(y)) for x, y in zip(cur_X.tolist(), cur_Y.tolist())]
    if pairs != want_pairs:
        extra = [p for p in pairs if p not in want_pairs]
        missing = [p for p in want_pairs if p not in pairs]
        return {"error": "after prune(n_iterations=%d) the training set has %d samples, but keeping exactly the relevant "
                         "samples round by round leaves %d; retained although irrelevant: %s; dropped although relevant: %s"
                         % (case["iters"], len(pairs), len(want_pairs), extra[:3], missing[:3]), "props": ["C17"]}
    return None


def learn_state():
    """`learn` on a set with a validation error: known finding F5 unless repaired"""
    from opfython.models.supervised import SupervisedOPF
    rng = np.random.default_rng(0)
    X = rng.random((12, 2))
    Y = (X[:, 0] > 0.5).astype(int)
    Y[0], Y[1] = 0, 1
    XV = rng.random((6, 2))
    YV = (XV[:, 0] > 0.45).astype(int)
    out = []
    for iters in (1, 3):
        o = SupervisedOPF(distance="euclidean")
        Xa, Ya, Xb, Yb = X.copy(), Y.copy(), XV.copy(), YV.copy()
        try:
            o.learn(Xa, Ya, Xb, Yb, n_iterations=iters)
        except Exception as ex:
            out.append({"signature": "learn:%s" % type(ex).__name__,
                        "what": "SupervisedOPF.learn raises %s (%s) as soon as a validation sample is misclassified" % (
                            type(ex).__name__, str(ex)[:80])})
            continue
        before = sorted(map(tuple, np.vstack([X, XV]).round(12).tolist()))
        after = sorted(map(tuple, np.vstack([Xa, Xb]).round(12).tolist()))
        if before != after:
            out.append({"signature": "learn:multiset", "what": "learn does not conserve the multiset of samples"})
    uniq = {}
    for f in out:
        uniq[f["signature"]] = f
    return list(uniq.values())


def explore(tier="quick", prop="C17"):
    common.setup()
    rng = random.Random(common.seed() * 271 + 9)
    stats = {"evaluations": 0, "distinct_nontrivial": 0, "samples": []}
    failure = None
    for _ in range(150 if tier == "quick" else 4000):
        case = gen(rng)
        try:
            res = run_case(case)
        except Exception as ex:
            import traceback
            res = {"error": "%s: %s" % (type(ex).__name__, ex), "trace": traceback.format_exc()[-600:], "props": ["C17"]}
        stats["evaluations"] += 1
        stats["distinct_nontrivial"] += 1
        if len(stats["samples"]) < 2:
            stats["samples"].append(case)
        if res:
            failure = {"kind": "c17-case", "case": case, "observed": res}
            break
    stats["findings"] = learn_state()
    stats["rule"] = ("real SupervisedOPF: fit + predict on generated data, relevant flags compared with the conquerors (first "
                     "minimiser in conquest order) and all their ancestors; prune(1..3 iterations) final training set must equal the round-by-round reference (keep exactly the relevant samples) and be a "
                     "sub-multiset of the original (features, label) pairs; learn exercised on a set with validation errors; "
                     "every case non-trivial (>= 4 training samples, >= 1 query)")
    return stats, failure


def replay(rec):
    common.setup()
    return run_case(rec["case"])


if __name__ == "__main__":
    import time
    t = time.time()
    st, f = explore("quick")
    print({k: v for k, v in st.items() if k not in ("samples", "rule")}, "failure:", json.dumps(f)[:700] if f else None, round(time.time() - t, 1))
