"""Regenerates MANIFEST.json from specs/properties.py and manifest_meta.py (run by hand after edits)."""
import json, os, sys
sys.path.insert(0, os.path.dirname(os.path.abspath(__file__)))
from specs.properties import PROPERTIES
from manifest_meta import META, NOT_APPLICABLE
checks = []
for pid in sorted(PROPERTIES):
    m = META[pid]
    checks.append({
        "property_id": pid,
        "quick_cmd": "./check %s --tier quick" % pid,
        "thorough_cmd": "./check %s --tier thorough" % pid,
        "evidence_file": "/verif/evidence/%s.json" % pid,
        "replay_cmd_template": "./check --replay {path}",
        "engine": "pyvc",
        "level_claimed": {"category": PROPERTIES[pid]["level"], "text": m["text"], "design_ref": m["design_ref"]},
        "level_note": m["note"],
        "technique": m["technique"],
    })
man = {
    "version": 1,
    "setup_cmd": "./setup.sh",
    "hooks": {"guard": "OPFYTHON_VERIF", "enable": "none needed: contracts are sidecar files under /verif/specs, the run-time twin wraps the real methods inside the checker process, graph inputs are injected through the public pre_distances attribute",
              "baseline_off_cmd": "cd /repo && /venv/bin/python -m pytest -ra -q -p no:cacheprovider --timeout=900 --continue-on-collection-errors",
              "source_commits": [], "add_only": True},
    "engines": [{"name": "pyvc", "path": "/verif/pyvc", "serves_properties": sorted(PROPERTIES),
                 "kind_free_text": "contract-based deductive verification: VC generator over the real Python AST of /repo (sidecar contracts, loop invariants, lemmas), obligations discharged by z3; run-time twin of the same contracts on the real code for replay and bounded stand-ins"}],
    "checks": checks,
    "notes": "Exit codes of ./check: 0 held, 1 VIOLATION, 2 undecided (never a violation), 3 checker error. See DESIGN.md.",
    "not_applicable": NOT_APPLICABLE,
}
json.dump(man, open(os.path.join(os.path.dirname(os.path.abspath(__file__)), "MANIFEST.json"), "w"), indent=1)
print("MANIFEST.json written with", len(checks), "checks;", len(NOT_APPLICABLE), "not applicable")
