"""Contracts for opfython/math/general.py (C20) and the assumed contracts of the numpy functions it uses."""
import z3

from pyvc.contracts import contract, external, LoopSpec
from pyvc.logic import (conj, disj, neg, implies, iff, ite, eq, ne, lt, le, gt, ge, between, forall, exists,
                        length, vmax, vmin, MODE, realval, lift, fresh_int)
from pyvc.engine import SList, SMat, INT, REAL, fresh, Unsupported

G = "opfython.math.general."

AI = z3.ArraySort(INT, INT)
# CNT(arr, c, i) = number of positions t < i with arr[t] == c          (primitive recursion on i, any array)
CNT = z3.Function("CNT", AI, INT, INT, INT)
# RSUM(arr, n) = arr[0] + ... + arr[n-1]                                (external: np.sum of a float vector)
RSUM = z3.Function("RSUM", z3.ArraySort(INT, REAL), INT, REAL)


def cnt_def(arr):
    c, i = z3.Ints("cnt_c cnt_i")
    return z3.And(
        z3.ForAll([c], CNT(arr, c, 0) == 0, patterns=[CNT(arr, c, 0)]),
        z3.ForAll([c, i], z3.Implies(i >= 0, CNT(arr, c, i + 1) == CNT(arr, c, i) + z3.If(arr[i] == c, 1, 0)),
                  patterns=[CNT(arr, c, i + 1), z3.MultiPattern(CNT(arr, c, i), z3.Select(arr, i))]))


# ---------------------------------------------------------------- assumed numpy contracts (external contract table)

@external("numpy.max")
def np_max(ex, st, args, kwargs, node):
    v = args[0]
    if isinstance(v, SList) and not kwargs:
        ex.oblige(st, "safe", "numpy", "max-of-nonempty", L_gt(v.length, 0), node)
        m = fresh("npmax", v.arr.sort().range())
        w = fresh("npmax.at", INT)
        st.assume(forall(0, v.length, lambda t: le(v[t], m)))
        st.assume(conj(le(0, w), lt(w, v.length), eq(v[w], m)))
        return m
    if isinstance(v, SMat) and kwargs.get("axis") == 0:
        # column maxima: a function of the matrix (two calls on the same matrix give the same vector)
        M2 = z3.ArraySort(INT, z3.ArraySort(INT, REAL))
        COLMAX = z3.Function("COLMAX", M2, INT, z3.ArraySort(INT, REAL))
        COLAT = z3.Function("COLMAX_AT", M2, INT, AI)
        marr = ex.named(v.arr)
        cm = COLMAX(marr, lift(v.nrows, INT))
        at = COLAT(marr, lift(v.nrows, INT))
        st.assume(forall(0, v.ncols, lambda b: conj(forall(0, v.nrows, lambda a: le(v[a][b], z3.Select(cm, b))),
                                                   le(0, z3.Select(at, b)), lt(z3.Select(at, b), v.nrows),
                                                   eq(z3.Select(z3.Select(v.arr, z3.Select(at, b)), b), z3.Select(cm, b)))))
        return SList(cm, v.ncols, "real")
    raise Unsupported("np.max form")


def L_gt(a, b):
    return gt(a, b)


@external("numpy.bincount")
def np_bincount(ex, st, args, kwargs, node):
    v = args[0]
    if not isinstance(v, SList) or v.elem != "int":
        raise Unsupported("bincount of a non-integer list")
    ex.oblige(st, "safe", "numpy", "bincount-nonnegative", forall(0, v.length, lambda t: ge(v[t], 0)), node)
    n = fresh("bincount.len", INT)
    w = fresh("bincount.at", INT)
    arr = fresh("bincount", AI)
    st.assume(cnt_def(v.arr))
    st.assume(conj(ge(n, 0), forall(0, v.length, lambda t: lt(v[t], n)),
                   implies(gt(v.length, 0), conj(le(0, w), lt(w, v.length), eq(v[w], n - 1))),
                   implies(eq(v.length, 0), eq(n, 0))))
    st.assume(forall(0, n, lambda c: eq(z3.Select(arr, c), CNT(v.arr, c, lift(v.length, INT)))))
    res = SList(arr, n, "int")
    if not hasattr(ex, "bincount_src"):
        ex.bincount_src = {}
    ex.bincount_src[arr.get_id()] = v
    return res


@external("numpy.nansum")
def np_nansum(ex, st, args, kwargs, node):
    v = args[0]
    if isinstance(v, SList) and v.elem == "int" and not kwargs:
        src = getattr(ex, "bincount_src", {}).get(v.arr.get_id())
        if src is None:
            raise Unsupported("nansum of an integer list that is not a bincount")
        return src.length           # the bins of np.bincount add up to the number of items
    if isinstance(v, SMat) and kwargs.get("axis") == 1:
        if not (isinstance(v.ncols, int) and v.ncols == 2):
            raise Unsupported("row sums of a matrix with a symbolic number of columns")
        rs = fresh("rowsum", z3.ArraySort(INT, REAL))
        st.assume(forall(0, v.nrows, lambda r: eq(z3.Select(rs, r), v[r][0] + v[r][1])))
        return SList(rs, v.nrows, "real")
    raise Unsupported("np.nansum form")


def rsum_def():
    """definition of the spec function RSUM(e, j) = e[0] + ... + e[j-1] (primitive recursion on j, for every real
    vector e: a conservative extension).  The ASSUMED contract of np.sum is `np.sum(v) == RSUM(v, len(v))`."""
    AR = z3.ArraySort(INT, REAL)
    e = z3.Const("rs_e", AR)
    j = z3.Int("rs_j")
    return z3.And(z3.ForAll([e], RSUM(e, 0) == 0, patterns=[RSUM(e, 0)]),
                  z3.ForAll([e, j], z3.Implies(j >= 0, RSUM(e, j + 1) == RSUM(e, j) + z3.Select(e, j)),
                            patterns=[RSUM(e, j + 1)]))


@external("numpy.sum")
def np_sum(ex, st, args, kwargs, node):
    v = args[0]
    if isinstance(v, SList) and v.elem == "real" and not kwargs:
        st.assume(rsum_def())
        return RSUM(ex.named(v.arr), lift(v.length, INT))
    raise Unsupported("np.sum form")


def all_present(labels, K):
    """every class 0..K-1 occurs (the trigger only tells the instantiation engine when the clause is of interest:
    when class c is counted)"""
    n = length(labels)
    return forall(0, K, lambda c: exists(0, n, lambda t: eq(labels[t], c)),
                  pats=(lambda c: [CNT(labels.arr, c, lift(n, INT))]) if MODE.kind == "sym" else None)


@external("numpy.unique")
def np_unique(ex, st, args, kwargs, node):
    v = args[0]
    if not (isinstance(v, SList) and v.elem == "int" and kwargs.get("return_counts") is True):
        raise Unsupported("np.unique form")
    n = fresh("unique.len", INT)
    vals, cnts = fresh("unique.vals", AI), fresh("unique.counts", AI)
    st.assume(cnt_def(v.arr))
    # sorted distinct values with their multiplicities; when the values are exactly 0..K-1 the j-th value is j
    st.assume(conj(ge(n, 0), forall(0, n, lambda j: eq(z3.Select(cnts, j), CNT(v.arr, z3.Select(vals, j), lift(v.length, INT)))),
                   forall(0, n, lambda a, b: implies(lt(a, b), lt(z3.Select(vals, a), z3.Select(vals, b)))),
                   forall(0, n, lambda j: exists(0, v.length, lambda t: eq(v[t], z3.Select(vals, j)))),
                   forall(0, v.length, lambda t: exists(0, n, lambda j: eq(z3.Select(vals, j), v[t])))))
    # when the values are exactly 0 .. K-1 (all present) the sorted distinct values are 0 .. K-1 themselves
    K = MAXP1(v.arr, lift(v.length, INT))
    st.assume(implies(conj(forall(0, v.length, lambda t: conj(le(0, v[t]), lt(v[t], K))),
                           all_present(v, K)),
                      conj(eq(n, K), forall(0, n, lambda j: eq(z3.Select(vals, j), j)))))
    return (SList(vals, n, "int"), SList(cnts, n, "int"))


# ---------------------------------------------------------------- preconditions of C20

def labels_ok(labels, preds, K):
    """labels have classes 0..K-1 with every class present; predictions within the same range; equal lengths"""
    n = length(labels)
    return [("lengths", conj(eq(length(preds), n), ge(n, 1))),
            ("labels_in_range", forall(0, n, lambda t: conj(le(0, labels[t]), lt(labels[t], K)))),
            ("preds_in_range", forall(0, n, lambda t: conj(le(0, preds[t]), lt(preds[t], K)))),
            ("every_class_present", all_present(labels, K)),
            ("K", ge(K, 1))]


MAXP1 = z3.Function("MAXP1", AI, INT, INT)     # max(arr[0..n)) + 1  for a non-empty list


def maxp1_def(lab):
    """definition of MAXP1 for this list (the maximum of a non-empty finite list exists)"""
    n = lift(lab.length, INT)
    K = MAXP1(lab.arr, n)
    w = z3.Int("maxp1_at")
    t = z3.Int("maxp1_t")
    return z3.Implies(n >= 1, z3.And(
        z3.ForAll([t], z3.Implies(z3.And(t >= 0, t < n), z3.Select(lab.arr, t) < K), patterns=[z3.Select(lab.arr, t)]),
        z3.Exists([w], z3.And(w >= 0, w < n, z3.Select(lab.arr, w) == K - 1))))


def K_of(v):
    """number of classes K = max(labels) + 1"""
    return MAXP1(v.labels.arr, lift(length(v.labels), INT))


# ---------------------------------------------------------------- confusion_matrix

PAIR = z3.Function("PAIRCNT", AI, AI, INT, INT, INT, INT)     # PAIRCNT(lab, prd, a, b, i) = #{t < i: lab[t]=a and prd[t]=b}


def pair_def(lab, prd):
    a, b, i = z3.Ints("pc_a pc_b pc_i")
    return z3.And(
        z3.ForAll([a, b], PAIR(lab, prd, a, b, 0) == 0, patterns=[PAIR(lab, prd, a, b, 0)]),
        z3.ForAll([a, b, i], z3.Implies(
            i >= 0, PAIR(lab, prd, a, b, i + 1) == PAIR(lab, prd, a, b, i) + z3.If(z3.And(lab[i] == a, prd[i] == b), 1, 0)),
            patterns=[PAIR(lab, prd, a, b, i + 1), z3.MultiPattern(PAIR(lab, prd, a, b, i), z3.Select(lab, i))]))


def cm_requires(v):
    K = K_of(v)
    return labels_ok(v.labels, v.preds, K)


contract(G + "confusion_matrix", params={"labels": "list[int]", "preds": "list[int]", "return": "mat2d"},
         props=["C20"],
         requires=cm_requires,
         defs=lambda v: [("pair_def", pair_def(v.labels.arr, v.preds.arr)), ("maxp1_def", maxp1_def(v.labels))],
         ensures=lambda v, old, result: [] if MODE.kind != "sym" else [
             ("shape", conj(eq(result.nrows, K_of(v)), eq(result.ncols, K_of(v)))),
             ("counts_every_pair_once", forall(0, K_of(v), lambda a, b: eq(
                 result[a][b], PAIR(v.labels.arr, v.preds.arr, a, b, lift(length(v.labels), INT))))),
             ("pair_def", pair_def(v.labels.arr, v.preds.arr))],
         loops=[LoopSpec("for", var="(label, pred)", inv=lambda v, old, le_: [
             ("shape", conj(eq(v.n_class, K_of(v)), eq(v.c_matrix.nrows, v.n_class), eq(v.c_matrix.ncols, v.n_class),
                            le(v.loop0_k, length(v.labels)))),
             ("counted", forall(0, v.n_class, lambda a, b: eq(
                 v.c_matrix[a][b], PAIR(v.labels.arr, v.preds.arr, a, b, lift(v.loop0_k, INT)))))])])


# ---------------------------------------------------------------- opf_accuracy  (K >= 2; K = 1 is a 0/0 -> NaN -> nansum
#                                                                   case that the real-number model cannot express: bounded)

FPc = z3.Function("FPCNT", AI, AI, INT, INT, INT)     # FPCNT(lab, prd, c, i) = #{t < i: prd[t] = c and lab[t] != c}
FNc = z3.Function("FNCNT", AI, AI, INT, INT, INT)     # FNCNT(lab, prd, c, i) = #{t < i: lab[t] = c and prd[t] != c}


def err_defs(lab, prd):
    c, i = z3.Ints("ec_c ec_i")
    return z3.And(
        z3.ForAll([c], FPc(lab, prd, c, 0) == 0, patterns=[FPc(lab, prd, c, 0)]),
        z3.ForAll([c], FNc(lab, prd, c, 0) == 0, patterns=[FNc(lab, prd, c, 0)]),
        z3.ForAll([c, i], z3.Implies(i >= 0, z3.And(
            FPc(lab, prd, c, i + 1) == FPc(lab, prd, c, i) + z3.If(z3.And(prd[i] == c, lab[i] != c), 1, 0),
            FNc(lab, prd, c, i + 1) == FNc(lab, prd, c, i) + z3.If(z3.And(lab[i] == c, prd[i] != c), 1, 0))),
        patterns=[FPc(lab, prd, c, i + 1), FNc(lab, prd, c, i + 1),
                  z3.MultiPattern(FPc(lab, prd, c, i), z3.Select(lab, i)),
                  z3.MultiPattern(FNc(lab, prd, c, i), z3.Select(lab, i))]))


def acc_summand(v, c):
    lab, prd = v.labels.arr, v.preds.arr
    N = lift(length(v.labels), INT)
    Nc = CNT(lab, c, N)
    return realval(FPc(lab, prd, c, N)) / realval(N - Nc) + realval(FNc(lab, prd, c, N)) / realval(Nc)


contract(G + "opf_accuracy", params={"labels": "list[int]", "preds": "list[int]", "return": "real"},
         props=["C20", "C16"],
         requires=lambda v: labels_ok(v.labels, v.preds, K_of(v)) + [("two_classes", ge(K_of(v), 2))],
         defs=lambda v: [("err_defs", err_defs(v.labels.arr, v.preds.arr)), ("cnt_def", cnt_def(v.labels.arr)),
                         ("maxp1_def", maxp1_def(v.labels))],
         lemmas=[("before:errors[:, 1] /= counts", "cnt_bounds", lambda v: {"arr": v.labels}),
                 ("before:errors[:, 1] /= counts", "err_bounds", lambda v: {"lab": v.labels, "prd": v.preds}),
                 # bounds / zero test of the sum of the K summands: proved from the definition of RSUM (np.sum's contract)
                 ("after:accuracy = 1 - np.sum(errors) / (2 * n_class)", "rsum_bounds",
                  lambda v: {"e": v.errors, "_at": [lift(v.n_class, INT)]})],
         late_hints=[("before:errors[:, 1] /= counts", lambda v, old: [
             ("classes_0_and_1_present", conj(ge(CNT(v.labels.arr, 0, lift(length(v.labels), INT)), 1),
                                              ge(CNT(v.labels.arr, 1, lift(length(v.labels), INT)), 1))),
             ("every_class_counted", forall(0, v.n_class, lambda c: ge(CNT(v.labels.arr, c, lift(length(v.labels), INT)), 1))),
             ("others_exist", forall(0, v.n_class, lambda c: ge(
                 lift(length(v.labels), INT) - CNT(v.labels.arr, c, lift(length(v.labels), INT)), 1))),
         ])],
         hints=[("after:errors = np.nansum(errors, axis=1)", lambda v, old: [
             ("summand_range", forall(0, v.n_class, lambda c: conj(ge(v.errors[c], 0), le(v.errors[c], 2)))),
             ("summand_zero_iff", forall(0, v.n_class, lambda c: iff(eq(v.errors[c], 0), conj(
                 eq(FPc(v.labels.arr, v.preds.arr, c, lift(length(v.labels), INT)), 0),
                 eq(FNc(v.labels.arr, v.preds.arr, c, lift(length(v.labels), INT)), 0))))),
             ("all_correct_gives_zero", implies(forall(0, length(v.labels), lambda t: eq(v.labels[t], v.preds[t])),
                                                forall(0, v.n_class, lambda c: eq(v.errors[c], 0)))),
             ("a_wrong_one_gives_nonzero", forall(0, length(v.labels), lambda t: implies(
                 ne(v.labels[t], v.preds[t]),
                 conj(ge(FNc(v.labels.arr, v.preds.arr, v.labels[t], lift(length(v.labels), INT)), 1),
                      ne(v.errors[v.labels[t]], 0))))),
         ])],
         ensures=lambda v, old, result: [] if MODE.kind != "sym" else [
             ("range", conj(ge(result, 0), le(result, 1))),
             ("one_iff_all_correct", iff(eq(result, 1), forall(0, length(v.labels), lambda t: eq(v.labels[t], v.preds[t])))),
             # 1 - (1/2K) * sum over classes of (FP_c / (N - N_c) + FN_c / N_c), the sum being np.sum of the summand vector
             ("formula", exists(0, 1, lambda _u: True) if False else eq(
                 result, 1 - RSUM(v.ghost("g_summands", "list[real]").arr, lift(K_of(v), INT)) / (2 * realval(K_of(v))))),
             ("summands", forall(0, K_of(v), lambda c: eq(v.ghost("g_summands", "list[real]")[c], acc_summand(v, c)))),
         ],
         ghost=[("after:errors = np.nansum(errors, axis=1)", "g_summands = errors")],
         loops=[LoopSpec("for", var="(label, pred)", inv=lambda v, old, le_: [
             ("shape", conj(eq(v.n_class, K_of(v)), eq(v.errors.nrows, v.n_class), eq(v.errors.ncols, 2),
                            eq(length(v.counts), v.n_class), le(v.loop0_k, length(v.labels)))),
             ("counts", forall(0, v.n_class, lambda c: eq(v.counts[c], CNT(v.labels.arr, c, lift(length(v.labels), INT))))),
             ("errors", forall(0, v.n_class, lambda c: conj(
                 eq(v.errors[c][0], FPc(v.labels.arr, v.preds.arr, c, lift(v.loop0_k, INT))),
                 eq(v.errors[c][1], FNc(v.labels.arr, v.preds.arr, c, lift(v.loop0_k, INT))))))])])


# ---------------------------------------------------------------- counting lemmas (strong induction on the prefix length)
from pyvc.contracts import lemma   # noqa: E402


def _cnt_concl(arr, k):
    c, d = z3.Ints("cb_c cb_d")
    a = arr.arr
    return z3.ForAll([c, d], z3.And(
        CNT(a, c, k) >= 0, CNT(a, c, k) <= k,
        z3.Implies(c != d, CNT(a, c, k) + CNT(a, d, k) <= k),
        z3.Implies(z3.Exists([z3.Int("cb_t")], z3.And(z3.Int("cb_t") >= 0, z3.Int("cb_t") < k,
                                                     z3.Select(a, z3.Int("cb_t")) == c)), CNT(a, c, k) >= 1)),
        patterns=[z3.MultiPattern(CNT(a, c, k), CNT(a, d, k))])


lemma("cnt_bounds", params={"arr": "list[int]"}, props=["C20"],
      hyp=lambda arr: [("cnt_def", cnt_def(arr.arr)), ("len", ge(length(arr), 0))],
      concl=lambda arr, k: _cnt_concl(arr, k),
      hints=lambda arr, k: [
          ("unfold", implies(ge(k, 1), z3.ForAll([z3.Int("uf_c")], CNT(arr.arr, z3.Int("uf_c"), k) == CNT(
              arr.arr, z3.Int("uf_c"), k - 1) + z3.If(z3.Select(arr.arr, k - 1) == z3.Int("uf_c"), 1, 0),
              patterns=[CNT(arr.arr, z3.Int("uf_c"), k)]))),
          ("base", implies(eq(k, 0), z3.ForAll([z3.Int("uf_c")], CNT(arr.arr, z3.Int("uf_c"), k) == 0,
                                               patterns=[CNT(arr.arr, z3.Int("uf_c"), k)]))),
          ("pred", implies(ge(k, 1), _cnt_concl(arr, k - 1)))],
      lo=lambda arr: 0, hi=lambda arr: length(arr) + 1)


# ---------------------------------------------------------------- opf_accuracy_per_label: recall of each class

contract(G + "opf_accuracy_per_label", params={"labels": "list[int]", "preds": "list[int]", "return": "list[real]"},
         props=["C20"],
         requires=lambda v: labels_ok(v.labels, v.preds, K_of(v)),
         defs=lambda v: [("err_defs", err_defs(v.labels.arr, v.preds.arr)), ("cnt_def", cnt_def(v.labels.arr)),
                         ("maxp1_def", maxp1_def(v.labels))],
         lemmas=[("before:errors /= counts", "cnt_bounds", lambda v: {"arr": v.labels})],
         ensures=lambda v, old, result: [] if MODE.kind != "sym" else [
             ("len", eq(length(result), K_of(v))),
             ("recall", forall(0, K_of(v), lambda c: eq(result[c], 1 - realval(FNc(v.labels.arr, v.preds.arr, c,
                                                                                    lift(length(v.labels), INT)))
                                                        / realval(CNT(v.labels.arr, c, lift(length(v.labels), INT))))))],
         loops=[LoopSpec("for", var="(label, pred)", inv=lambda v, old, le_: [
             ("shape", conj(eq(v.n_class, K_of(v)), eq(length(v.errors), v.n_class), eq(length(v.counts), v.n_class),
                            le(v.loop0_k, length(v.labels)))),
             ("counts", forall(0, v.n_class, lambda c: eq(v.counts[c], CNT(v.labels.arr, c, lift(length(v.labels), INT))))),
             ("errors", forall(0, v.n_class, lambda c: eq(v.errors[c], FNc(v.labels.arr, v.preds.arr, c,
                                                                            lift(v.loop0_k, INT)))))])])


# ---------------------------------------------------------------- purity = (sum over predicted groups of the largest true class) / N

# PURE_GROUP(lab, prd, n, b, a): every one of the first n samples predicted as b has true class a  (defined predicate)
PUREP = z3.Function("PURE_GROUP", AI, AI, INT, INT, INT, z3.BoolSort())
_M2 = z3.ArraySort(INT, z3.ArraySort(INT, REAL))
COLAT = z3.Function("COLMAX_AT", _M2, INT, AI)      # the arg-max rows of np.max(.., axis=0) (see the numpy.max contract)


def pure_def(lab, prd, n):
    b, a, t = z3.Ints("pg_b pg_a pg_t")
    return z3.ForAll([b, a], PUREP(lab, prd, n, b, a) == z3.ForAll(
        [t], z3.Implies(z3.And(t >= 0, t < n, z3.Select(prd, t) == b), z3.Select(lab, t) == a), patterns=[z3.Select(prd, t)]),
        patterns=[PUREP(lab, prd, n, b, a)])


def _groups_pure(v):
    """every predicted group contains samples of a single true class (the first conjunct is trivially true and only
    gives the instantiation engine a term that mentions b)"""
    n, K = lift(length(v.labels), INT), K_of(v)
    la, pa = v.labels.arr, v.preds.arr
    return forall(0, K, lambda b: conj(ge(CNT(pa, b, n), 0), exists(0, K, lambda a: PUREP(la, pa, n, b, a))))


def _colcnt_vec(v):
    from pyvc.engine import SList as _SList
    return _SList(COLCNTV(v.preds.arr, lift(length(v.labels), INT)), K_of(v), "real")


def _purity_hints(v, old):
    n, K = lift(length(v.labels), INT), K_of(v)
    la, pa = v.labels.arr, v.preds.arr
    cm = v.g_colmax
    cc = _colcnt_vec(v)
    S = RSUM(cm.arr, K)
    AT = COLAT(v.c_matrix.arr, lift(v.c_matrix.nrows, INT))
    at = lambda b: z3.Select(AT, b)
    cnt = lambda b: CNT(pa, b, n)
    return [
        ("colmax_witness", forall(0, K, lambda b: conj(le(0, at(b)), lt(at(b), K),
                                                       eq(realval(PAIR(la, pa, at(b), b, n)), cm[b])),
                                  pats=lambda b: [cm[b], at(b), cnt(b)])),
        ("colmax_le_group", forall(0, K, lambda b: conj(ge(cm[b], 0), le(cm[b], cc[b])))),
        ("group_sizes_add_up", eq(RSUM(cc.arr, K), realval(n))),
        ("sum_le_N", le(S, realval(n))),
        ("first_pair", ge(PAIR(la, pa, v.labels[0], v.preds[0], n), 1)),
        ("first_pair_counted", ge(cm[v.preds[0]], 1)),
        ("sum_ge_1", ge(S, 1)),
        ("sum_eq_N_iff_columns_full", iff(eq(S, realval(n)), forall(0, K, lambda b: eq(cm[b], cc[b])))),
        ("pure_pair_full", forall(0, K, lambda b, a: implies(PUREP(la, pa, n, b, a), eq(PAIR(la, pa, a, b, n), cnt(b))),
                                  pats=lambda b, a: [PUREP(la, pa, n, b, a)])),
        ("full_gives_pure", forall(0, K, lambda b: implies(eq(cm[b], cc[b]), PUREP(la, pa, n, b, at(b))),
                                   pats=lambda b: [cm[b], cnt(b)])),
        ("pure_gives_full", forall(0, K, lambda b: implies(exists(0, K, lambda a: PUREP(la, pa, n, b, a)), eq(cm[b], cc[b])),
                                   pats=lambda b: [cm[b], cnt(b)])),
        ("one_iff_sum", iff(eq(S / realval(n), 1), eq(S, realval(n)))),
    ]


_PUR_ANCHOR = "after:_purity = np.sum(np.max(c_matrix, axis=0)) / len(labels)"

contract(G + "purity", params={"labels": "list[int]", "preds": "list[int]", "return": "real"}, props=["C20"],
         requires=lambda v: labels_ok(v.labels, v.preds, K_of(v)),
         defs=lambda v: [("pair_def", pair_def(v.labels.arr, v.preds.arr)), ("maxp1_def", maxp1_def(v.labels)),
                         ("cnt_def", cnt_def(v.preds.arr)), ("colcnt_def", colcnt_def(v.preds.arr)), ("rsum_def", rsum_def()),
                         ("pure_def", pure_def(v.labels.arr, v.preds.arr, lift(length(v.labels), INT)))],
         ensures=lambda v, old, result: [] if MODE.kind != "sym" else [
             ("formula", eq(result, RSUM(v.ghost("g_colmax", "list[real]").arr, lift(K_of(v), INT))
                            / realval(lift(length(v.labels), INT)))),
             ("colmax_upper", forall(0, K_of(v), lambda a, b: le(
                 PAIR(v.labels.arr, v.preds.arr, a, b, lift(length(v.labels), INT)), v.ghost("g_colmax", "list[real]")[b]))),
             # (the first conjunct is there to name the column outside the existential: a ground term for the triggers)
             ("colmax_attained", forall(0, K_of(v), lambda b: conj(
                 ge(v.ghost("g_colmax", "list[real]")[b], 0),
                 exists(0, K_of(v), lambda a: eq(
                     realval(PAIR(v.labels.arr, v.preds.arr, a, b, lift(length(v.labels), INT))),
                     v.ghost("g_colmax", "list[real]")[b]),
                     pats=lambda a: [PAIR(v.labels.arr, v.preds.arr, a, b, lift(length(v.labels), INT))])))),
             # the property statement: purity lies in (0, 1] and is 1 exactly when every predicted group is pure
             ("range", conj(gt(result, 0), le(result, 1))),
             ("one_iff_pure_groups", iff(eq(result, 1), _groups_pure(v))),
         ],
         lemmas=[(_PUR_ANCHOR, "pair_bounds", lambda v: {"lab": v.labels, "prd": v.preds, "_at": [lift(length(v.labels), INT)]}),
                 (_PUR_ANCHOR, "colcnt_total", lambda v: {"prd": v.preds, "K": K_of(v), "_at": [lift(length(v.labels), INT)]}),
                 (_PUR_ANCHOR, "rsum_bounds", lambda v: {"e": v.g_colmax, "_at": [K_of(v)]}),
                 (_PUR_ANCHOR, "rsum_le", lambda v: {"e": v.g_colmax, "f": _colcnt_vec(v), "_at": [K_of(v)]})],
         late_hints=[(_PUR_ANCHOR, _purity_hints)],
         ghost=[("after:c_matrix = confusion_matrix(labels, preds)", "g_colmax = np.max(c_matrix, axis=0)")])


def _err_concl(lab, prd, k):
    c = z3.Int("eb_c")
    t = z3.Int("eb_t")
    la, pa = lab.arr, prd.arr
    return z3.ForAll([c], z3.And(
        FNc(la, pa, c, k) >= 0, FNc(la, pa, c, k) <= CNT(la, c, k),
        FPc(la, pa, c, k) >= 0, FPc(la, pa, c, k) <= k - CNT(la, c, k),
        z3.Implies(z3.Exists([t], z3.And(t >= 0, t < k, z3.Select(la, t) == c, z3.Select(pa, t) != c)), FNc(la, pa, c, k) >= 1),
        z3.Implies(z3.ForAll([t], z3.Implies(z3.And(t >= 0, t < k), z3.Select(la, t) == z3.Select(pa, t)),
                             patterns=[z3.Select(la, t)]),
                   z3.And(FNc(la, pa, c, k) == 0, FPc(la, pa, c, k) == 0))),
        patterns=[FNc(la, pa, c, k), FPc(la, pa, c, k), CNT(la, c, k)])


lemma("err_bounds", params={"lab": "list[int]", "prd": "list[int]"}, props=["C20"],
      hyp=lambda lab, prd: [("cnt_def", cnt_def(lab.arr)), ("err_defs", err_defs(lab.arr, prd.arr)),
                            ("len", ge(length(lab), 0))],
      concl=lambda lab, prd, k: _err_concl(lab, prd, k),
      hints=lambda lab, prd, k: [
          ("unfold", implies(ge(k, 1), z3.ForAll([z3.Int("uf_c")], z3.And(
              CNT(lab.arr, z3.Int("uf_c"), k) == CNT(lab.arr, z3.Int("uf_c"), k - 1)
              + z3.If(z3.Select(lab.arr, k - 1) == z3.Int("uf_c"), 1, 0),
              FPc(lab.arr, prd.arr, z3.Int("uf_c"), k) == FPc(lab.arr, prd.arr, z3.Int("uf_c"), k - 1) + z3.If(z3.And(
                  z3.Select(prd.arr, k - 1) == z3.Int("uf_c"), z3.Select(lab.arr, k - 1) != z3.Int("uf_c")), 1, 0),
              FNc(lab.arr, prd.arr, z3.Int("uf_c"), k) == FNc(lab.arr, prd.arr, z3.Int("uf_c"), k - 1) + z3.If(z3.And(
                  z3.Select(lab.arr, k - 1) == z3.Int("uf_c"), z3.Select(prd.arr, k - 1) != z3.Int("uf_c")), 1, 0)),
              patterns=[CNT(lab.arr, z3.Int("uf_c"), k), FPc(lab.arr, prd.arr, z3.Int("uf_c"), k),
                        FNc(lab.arr, prd.arr, z3.Int("uf_c"), k)]))),
          ("base", implies(eq(k, 0), z3.ForAll([z3.Int("uf_c")], z3.And(
              CNT(lab.arr, z3.Int("uf_c"), k) == 0, FPc(lab.arr, prd.arr, z3.Int("uf_c"), k) == 0,
              FNc(lab.arr, prd.arr, z3.Int("uf_c"), k) == 0),
              patterns=[CNT(lab.arr, z3.Int("uf_c"), k), FPc(lab.arr, prd.arr, z3.Int("uf_c"), k)]))),
          ("pred", implies(ge(k, 1), _err_concl(lab, prd, k - 1)))],
      lo=lambda lab, prd: 0, hi=lambda lab, prd: length(lab) + 1)


# ---------------------------------------------------------------- normalize: (value - column mean) / column std
from pyvc.contracts import STATICS   # noqa: E402
import ast as _ast                   # noqa: E402


def _normalize_static(repo):
    """normalize is three numpy statements; under numpy's broadcasting contract (a (rows x cols) array combined with a
    length-cols vector operates column-wise) the body computes (A[i][j] - MEAN_j) / STD_j iff it has exactly this shape"""
    from pyvc.source import strip_docstring
    fn, _, _ = repo.function("opfython.math.general.normalize")
    body = [" ".join(_ast.unparse(s).split()) for s in strip_docstring(fn)]
    want = ["mean = np.mean(array, axis=0)", "std = np.std(array, axis=0)", "norm_array = (array - mean) / std",
            "return norm_array"]
    # accept any straight-line body that evaluates to (array - np.mean(array, axis=0)) / np.std(array, axis=0)
    env = {"array": "array"}
    val = None
    ok = True
    for st in strip_docstring(fn):
        if isinstance(st, _ast.Assign) and len(st.targets) == 1 and isinstance(st.targets[0], _ast.Name):
            env[st.targets[0].id] = _subst(st.value, env)
        elif isinstance(st, _ast.Return):
            val = _subst(st.value, env)
        else:
            ok = False
    canon = "(array - np.mean(array, axis=0)) / np.std(array, axis=0)"
    return [("normalize/column-wise-standard-score", True if (ok and val == canon) else None, fn.lineno, "value: %s" % val)]


def _subst(e, env):
    class S(_ast.NodeTransformer):
        def visit_Name(self, n):
            if n.id in env and env[n.id] != n.id:
                return _ast.parse("(" + env[n.id] + ")", mode="eval").body
            return n
    import copy
    return " ".join(_ast.unparse(S().visit(copy.deepcopy(e))).split())


STATICS["normalize"] = _normalize_static


# ---------------------------------------------------------------- sums: lemmas about RSUM (induction on the length)

def _unfold_rsum(a, k):
    return implies(ge(k, 1), RSUM(a, k) == RSUM(a, k - 1) + z3.Select(a, k - 1))


def _rsum_concl(e, k):
    a = e.arr
    c = z3.Int("rb_c")
    S = RSUM(a, k)
    rng = z3.And(c >= 0, c < k)
    nonneg = z3.ForAll([c], z3.Implies(rng, z3.Select(a, c) >= 0), patterns=[z3.Select(a, c)])
    return z3.And(
        z3.Implies(z3.ForAll([c], z3.Implies(rng, z3.And(z3.Select(a, c) >= 0, z3.Select(a, c) <= 2)),
                             patterns=[z3.Select(a, c)]),
                   z3.And(S >= 0, S <= 2 * z3.ToReal(k))),
        z3.Implies(nonneg, z3.And(
            S >= 0,
            (S == 0) == z3.ForAll([c], z3.Implies(rng, z3.Select(a, c) == 0), patterns=[z3.Select(a, c)]),
            z3.ForAll([c], z3.Implies(rng, z3.Select(a, c) <= S), patterns=[z3.Select(a, c)]))))


lemma("rsum_bounds", params={"e": "list[real]"}, props=["C20"],
      hyp=lambda e: [("rsum_def", rsum_def()), ("len", ge(length(e), 0))],
      concl=lambda e, k: _rsum_concl(e, k),
      hints=lambda e, k: [("unfold", _unfold_rsum(e.arr, k)), ("base", implies(eq(k, 0), RSUM(e.arr, k) == 0)),
                          ("pred", implies(ge(k, 1), _rsum_concl(e, k - 1)))],
      lo=lambda e: 0, hi=lambda e: length(e) + 1)


def _rsum_le_concl(e, f, k):
    a, b = e.arr, f.arr
    c = z3.Int("rl_c")
    rng = z3.And(c >= 0, c < k)
    return z3.Implies(
        z3.ForAll([c], z3.Implies(rng, z3.Select(a, c) <= z3.Select(b, c)), patterns=[z3.Select(a, c), z3.Select(b, c)]),
        z3.And(RSUM(a, k) <= RSUM(b, k),
               (RSUM(a, k) == RSUM(b, k)) == z3.ForAll([c], z3.Implies(rng, z3.Select(a, c) == z3.Select(b, c)),
                                                       patterns=[z3.Select(a, c), z3.Select(b, c)])))


lemma("rsum_le", params={"e": "list[real]", "f": "list[real]"}, props=["C20"],
      hyp=lambda e, f: [("rsum_def", rsum_def()), ("len", ge(length(e), 0))],
      concl=lambda e, f, k: _rsum_le_concl(e, f, k),
      hints=lambda e, f, k: [("unfold_e", _unfold_rsum(e.arr, k)), ("unfold_f", _unfold_rsum(f.arr, k)),
                             ("base", implies(eq(k, 0), z3.And(RSUM(e.arr, k) == 0, RSUM(f.arr, k) == 0))),
                             ("pred", implies(ge(k, 1), _rsum_le_concl(e, f, k - 1)))],
      lo=lambda e, f: 0, hi=lambda e, f: length(e) + 1)


# the vector of predicted-group sizes: COLCNTV(prd, i)[b] = #{t < i : prd[t] = b}   (a defined ghost vector)
COLCNTV = z3.Function("COLCNTV", AI, INT, z3.ArraySort(INT, REAL))


def colcnt_def(prd):
    i, b = z3.Ints("cc_i cc_b")
    return z3.ForAll([i, b], z3.Select(COLCNTV(prd, i), b) == z3.ToReal(CNT(prd, b, i)),
                     patterns=[z3.Select(COLCNTV(prd, i), b)])


def _cc_hyp(prd):
    return [("rsum_def", rsum_def()), ("cnt_def", cnt_def(prd.arr)), ("colcnt_def", colcnt_def(prd.arr))]


# sum over the first j groups of the sizes after i items
def _T(prd, i, j):
    return RSUM(COLCNTV(prd.arr, i), j)


lemma("colcnt_zero", params={"prd": "list[int]", "K": "int"}, props=["C20"],
      hyp=lambda prd, K: _cc_hyp(prd) + [("K", ge(K, 0))],
      concl=lambda prd, K, k: _T(prd, 0, k) == 0,
      hints=lambda prd, K, k: [("unfold", _unfold_rsum(COLCNTV(prd.arr, 0), k)),
                               ("entry", implies(ge(k, 1), z3.Select(COLCNTV(prd.arr, 0), k - 1) == 0))],
      lo=lambda prd, K: 0, hi=lambda prd, K: K + 1)


def _cc_step_concl(prd, i, k):
    pi = z3.Select(prd.arr, i)
    return z3.Implies(i >= 0, _T(prd, i + 1, k) == _T(prd, i, k) + z3.If(z3.And(pi >= 0, pi < k), 1.0, 0.0))


lemma("colcnt_step", params={"prd": "list[int]", "K": "int", "i": "int"}, props=["C20"],
      hyp=lambda prd, K, i: _cc_hyp(prd) + [("K", ge(K, 0))],
      concl=lambda prd, K, i, k: _cc_step_concl(prd, i, k),
      hints=lambda prd, K, i, k: [
          ("unfold_new", _unfold_rsum(COLCNTV(prd.arr, i + 1), k)), ("unfold_old", _unfold_rsum(COLCNTV(prd.arr, i), k)),
          ("base", implies(eq(k, 0), z3.And(_T(prd, i + 1, k) == 0, _T(prd, i, k) == 0))),
          ("entry", implies(conj(ge(k, 1), ge(i, 0)),
                            z3.Select(COLCNTV(prd.arr, i + 1), k - 1) == z3.Select(COLCNTV(prd.arr, i), k - 1)
                            + z3.If(z3.Select(prd.arr, i) == k - 1, 1.0, 0.0))),
          ("pred", implies(ge(k, 1), _cc_step_concl(prd, i, k - 1)))],
      lo=lambda prd, K, i: 0, hi=lambda prd, K, i: K + 1)


lemma("colcnt_total", params={"prd": "list[int]", "K": "int"}, props=["C20"],
      hyp=lambda prd, K: _cc_hyp(prd) + [("K", ge(K, 0)),
                                         ("in_range", forall(0, length(prd), lambda t: conj(le(0, prd[t]), lt(prd[t], K))))],
      concl=lambda prd, K, k: _T(prd, k, K) == z3.ToReal(k),
      uses=[("colcnt_zero", lambda prd, K, k: {"prd": prd, "K": K}),
            ("colcnt_step", lambda prd, K, k: {"prd": prd, "K": K, "i": k - 1})],
      hints=lambda prd, K, k: [("zero", _T(prd, 0, K) == 0),
                               ("step", implies(ge(k, 1), _T(prd, k, K) == _T(prd, k - 1, K) + 1))],
      lo=lambda prd, K: 0, hi=lambda prd, K: length(prd) + 1)


def _pair_concl(lab, prd, k):
    la, pa = lab.arr, prd.arr
    a, b, t = z3.Ints("pb_a pb_b pb_t")
    rng = z3.And(t >= 0, t < k)
    P = PAIR(la, pa, a, b, k)
    C = CNT(pa, b, k)
    return z3.ForAll([a, b], z3.And(
        P >= 0, P <= C,
        (P == C) == z3.ForAll([t], z3.Implies(z3.And(rng, z3.Select(pa, t) == b), z3.Select(la, t) == a),
                              patterns=[z3.Select(pa, t)]),
        z3.Implies(z3.Exists([t], z3.And(rng, z3.Select(la, t) == a, z3.Select(pa, t) == b)), P >= 1)),
        patterns=[P])


def _pair_unfold(lab, prd, k):
    la, pa = lab.arr, prd.arr
    a, b = z3.Ints("pu_a pu_b")
    return implies(ge(k, 1), z3.ForAll([a, b], z3.And(
        PAIR(la, pa, a, b, k) == PAIR(la, pa, a, b, k - 1) + z3.If(z3.And(z3.Select(la, k - 1) == a, z3.Select(pa, k - 1) == b), 1, 0),
        CNT(pa, b, k) == CNT(pa, b, k - 1) + z3.If(z3.Select(pa, k - 1) == b, 1, 0)),
        patterns=[PAIR(la, pa, a, b, k)]))


lemma("pair_bounds", params={"lab": "list[int]", "prd": "list[int]"}, props=["C20"],
      hyp=lambda lab, prd: [("pair_def", pair_def(lab.arr, prd.arr)), ("cnt_def", cnt_def(prd.arr)), ("len", ge(length(lab), 0))],
      concl=lambda lab, prd, k: _pair_concl(lab, prd, k),
      hints=lambda lab, prd, k: [
          ("unfold", _pair_unfold(lab, prd, k)),
          ("base", implies(eq(k, 0), z3.ForAll([z3.Int("pu_a"), z3.Int("pu_b")], z3.And(
              PAIR(lab.arr, prd.arr, z3.Int("pu_a"), z3.Int("pu_b"), k) == 0, CNT(prd.arr, z3.Int("pu_b"), k) == 0),
              patterns=[PAIR(lab.arr, prd.arr, z3.Int("pu_a"), z3.Int("pu_b"), k)]))),
          ("pred", implies(ge(k, 1), _pair_concl(lab, prd, k - 1)))],
      lo=lambda lab, prd: 0, hi=lambda lab, prd: length(lab) + 1)
