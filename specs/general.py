"""Contracts for opfython/math/general.py (C20) and the assumed contracts of the numpy functions it uses."""
import z3

from pyvc.contracts import contract, external, LoopSpec
from pyvc.logic import (conj, disj, neg, implies, iff, ite, eq, ne, lt, le, gt, ge, between, forall, exists,
                        length, vmax, vmin, MODE, realval, lift, fresh_int)
from pyvc.engine import SList, SMat, INT, REAL, fresh, Unsupported

G = "opfython.math.general."

AI = z3.ArraySort(INT, INT)
# CNT(arr, c, i) = number of positions t < i with arr[t] == c          (primitive recursion on i, any array)
CNT = z3.Function("CNT", AI, INT, INT, INT)
# RSUM(arr, n) = arr[0] + ... + arr[n-1]                                (external: np.sum of a float vector)
RSUM = z3.Function("RSUM", z3.ArraySort(INT, REAL), INT, REAL)


def cnt_def(arr):
    c, i = z3.Ints("cnt_c cnt_i")
    return z3.And(
        z3.ForAll([c], CNT(arr, c, 0) == 0, patterns=[CNT(arr, c, 0)]),
        z3.ForAll([c, i], z3.Implies(i >= 0, CNT(arr, c, i + 1) == CNT(arr, c, i) + z3.If(arr[i] == c, 1, 0)),
                  patterns=[CNT(arr, c, i + 1), z3.MultiPattern(CNT(arr, c, i), z3.Select(arr, i))]))


# ---------------------------------------------------------------- assumed numpy contracts (external contract table)

@external("numpy.max")
def np_max(ex, st, args, kwargs, node):
    v = args[0]
    if isinstance(v, SList) and not kwargs:
        ex.oblige(st, "safe", "numpy", "max-of-nonempty", L_gt(v.length, 0), node)
        m = fresh("npmax", v.arr.sort().range())
        w = fresh("npmax.at", INT)
        st.assume(forall(0, v.length, lambda t: le(v[t], m)))
        st.assume(conj(le(0, w), lt(w, v.length), eq(v[w], m)))
        return m
    if isinstance(v, SMat) and kwargs.get("axis") == 0:
        # column maxima: a function of the matrix (two calls on the same matrix give the same vector)
        M2 = z3.ArraySort(INT, z3.ArraySort(INT, REAL))
        COLMAX = z3.Function("COLMAX", M2, INT, z3.ArraySort(INT, REAL))
        COLAT = z3.Function("COLMAX_AT", M2, INT, AI)
        marr = ex.named(v.arr)
        cm = COLMAX(marr, lift(v.nrows, INT))
        at = COLAT(marr, lift(v.nrows, INT))
        st.assume(forall(0, v.ncols, lambda b: conj(forall(0, v.nrows, lambda a: le(v[a][b], z3.Select(cm, b))),
                                                   le(0, z3.Select(at, b)), lt(z3.Select(at, b), v.nrows),
                                                   eq(z3.Select(z3.Select(v.arr, z3.Select(at, b)), b), z3.Select(cm, b)))))
        return SList(cm, v.ncols, "real")
    raise Unsupported("np.max form")


def L_gt(a, b):
    return gt(a, b)


@external("numpy.bincount")
def np_bincount(ex, st, args, kwargs, node):
    v = args[0]
    if not isinstance(v, SList) or v.elem != "int":
        raise Unsupported("bincount of a non-integer list")
    ex.oblige(st, "safe", "numpy", "bincount-nonnegative", forall(0, v.length, lambda t: ge(v[t], 0)), node)
    n = fresh("bincount.len", INT)
    w = fresh("bincount.at", INT)
    arr = fresh("bincount", AI)
    st.assume(cnt_def(v.arr))
    st.assume(conj(ge(n, 0), forall(0, v.length, lambda t: lt(v[t], n)),
                   implies(gt(v.length, 0), conj(le(0, w), lt(w, v.length), eq(v[w], n - 1))),
                   implies(eq(v.length, 0), eq(n, 0))))
    st.assume(forall(0, n, lambda c: eq(z3.Select(arr, c), CNT(v.arr, c, lift(v.length, INT)))))
    res = SList(arr, n, "int")
    if not hasattr(ex, "bincount_src"):
        ex.bincount_src = {}
    ex.bincount_src[arr.get_id()] = v
    return res


@external("numpy.nansum")
def np_nansum(ex, st, args, kwargs, node):
    v = args[0]
    if isinstance(v, SList) and v.elem == "int" and not kwargs:
        src = getattr(ex, "bincount_src", {}).get(v.arr.get_id())
        if src is None:
            raise Unsupported("nansum of an integer list that is not a bincount")
        return src.length           # the bins of np.bincount add up to the number of items
    if isinstance(v, SMat) and kwargs.get("axis") == 1:
        if not (isinstance(v.ncols, int) and v.ncols == 2):
            raise Unsupported("row sums of a matrix with a symbolic number of columns")
        rs = fresh("rowsum", z3.ArraySort(INT, REAL))
        st.assume(forall(0, v.nrows, lambda r: eq(z3.Select(rs, r), v[r][0] + v[r][1])))
        return SList(rs, v.nrows, "real")
    raise Unsupported("np.nansum form")


@external("numpy.sum")
def np_sum(ex, st, args, kwargs, node):
    v = args[0]
    if isinstance(v, SList) and v.elem == "real" and not kwargs:
        return RSUM(ex.named(v.arr), lift(v.length, INT))
    raise Unsupported("np.sum form")


def all_present(labels, K):
    """every class 0..K-1 occurs (the trigger only tells the instantiation engine when the clause is of interest:
    when class c is counted)"""
    n = length(labels)
    return forall(0, K, lambda c: exists(0, n, lambda t: eq(labels[t], c)),
                  pats=(lambda c: [CNT(labels.arr, c, lift(n, INT))]) if MODE.kind == "sym" else None)


@external("numpy.unique")
def np_unique(ex, st, args, kwargs, node):
    v = args[0]
    if not (isinstance(v, SList) and v.elem == "int" and kwargs.get("return_counts") is True):
        raise Unsupported("np.unique form")
    n = fresh("unique.len", INT)
    vals, cnts = fresh("unique.vals", AI), fresh("unique.counts", AI)
    st.assume(cnt_def(v.arr))
    # sorted distinct values with their multiplicities; when the values are exactly 0..K-1 the j-th value is j
    st.assume(conj(ge(n, 0), forall(0, n, lambda j: eq(z3.Select(cnts, j), CNT(v.arr, z3.Select(vals, j), lift(v.length, INT)))),
                   forall(0, n, lambda a, b: implies(lt(a, b), lt(z3.Select(vals, a), z3.Select(vals, b)))),
                   forall(0, n, lambda j: exists(0, v.length, lambda t: eq(v[t], z3.Select(vals, j)))),
                   forall(0, v.length, lambda t: exists(0, n, lambda j: eq(z3.Select(vals, j), v[t])))))
    # when the values are exactly 0 .. K-1 (all present) the sorted distinct values are 0 .. K-1 themselves
    K = MAXP1(v.arr, lift(v.length, INT))
    st.assume(implies(conj(forall(0, v.length, lambda t: conj(le(0, v[t]), lt(v[t], K))),
                           all_present(v, K)),
                      conj(eq(n, K), forall(0, n, lambda j: eq(z3.Select(vals, j), j)))))
    return (SList(vals, n, "int"), SList(cnts, n, "int"))


# ---------------------------------------------------------------- preconditions of C20

def labels_ok(labels, preds, K):
    """labels have classes 0..K-1 with every class present; predictions within the same range; equal lengths"""
    n = length(labels)
    return [("lengths", conj(eq(length(preds), n), ge(n, 1))),
            ("labels_in_range", forall(0, n, lambda t: conj(le(0, labels[t]), lt(labels[t], K)))),
            ("preds_in_range", forall(0, n, lambda t: conj(le(0, preds[t]), lt(preds[t], K)))),
            ("every_class_present", all_present(labels, K)),
            ("K", ge(K, 1))]


MAXP1 = z3.Function("MAXP1", AI, INT, INT)     # max(arr[0..n)) + 1  for a non-empty list


def maxp1_def(lab):
    """definition of MAXP1 for this list (the maximum of a non-empty finite list exists)"""
    n = lift(lab.length, INT)
    K = MAXP1(lab.arr, n)
    w = z3.Int("maxp1_at")
    t = z3.Int("maxp1_t")
    return z3.Implies(n >= 1, z3.And(
        z3.ForAll([t], z3.Implies(z3.And(t >= 0, t < n), z3.Select(lab.arr, t) < K), patterns=[z3.Select(lab.arr, t)]),
        z3.Exists([w], z3.And(w >= 0, w < n, z3.Select(lab.arr, w) == K - 1))))


def K_of(v):
    """number of classes K = max(labels) + 1"""
    return MAXP1(v.labels.arr, lift(length(v.labels), INT))


# ---------------------------------------------------------------- confusion_matrix

PAIR = z3.Function("PAIRCNT", AI, AI, INT, INT, INT, INT)     # PAIRCNT(lab, prd, a, b, i) = #{t < i: lab[t]=a and prd[t]=b}


def pair_def(lab, prd):
    a, b, i = z3.Ints("pc_a pc_b pc_i")
    return z3.And(
        z3.ForAll([a, b], PAIR(lab, prd, a, b, 0) == 0, patterns=[PAIR(lab, prd, a, b, 0)]),
        z3.ForAll([a, b, i], z3.Implies(
            i >= 0, PAIR(lab, prd, a, b, i + 1) == PAIR(lab, prd, a, b, i) + z3.If(z3.And(lab[i] == a, prd[i] == b), 1, 0)),
            patterns=[PAIR(lab, prd, a, b, i + 1), z3.MultiPattern(PAIR(lab, prd, a, b, i), z3.Select(lab, i))]))


def cm_requires(v):
    K = K_of(v)
    return labels_ok(v.labels, v.preds, K)


contract(G + "confusion_matrix", params={"labels": "list[int]", "preds": "list[int]", "return": "mat2d"},
         props=["C20"],
         requires=cm_requires,
         defs=lambda v: [("pair_def", pair_def(v.labels.arr, v.preds.arr)), ("maxp1_def", maxp1_def(v.labels))],
         ensures=lambda v, old, result: [] if MODE.kind != "sym" else [
             ("shape", conj(eq(result.nrows, K_of(v)), eq(result.ncols, K_of(v)))),
             ("counts_every_pair_once", forall(0, K_of(v), lambda a, b: eq(
                 result[a][b], PAIR(v.labels.arr, v.preds.arr, a, b, lift(length(v.labels), INT))))),
             ("pair_def", pair_def(v.labels.arr, v.preds.arr))],
         loops=[LoopSpec("for", var="(label, pred)", inv=lambda v, old, le_: [
             ("shape", conj(eq(v.n_class, K_of(v)), eq(v.c_matrix.nrows, v.n_class), eq(v.c_matrix.ncols, v.n_class),
                            le(v.loop0_k, length(v.labels)))),
             ("counted", forall(0, v.n_class, lambda a, b: eq(
                 v.c_matrix[a][b], PAIR(v.labels.arr, v.preds.arr, a, b, lift(v.loop0_k, INT)))))])])


# ---------------------------------------------------------------- opf_accuracy  (K >= 2; K = 1 is a 0/0 -> NaN -> nansum
#                                                                   case that the real-number model cannot express: bounded)

FPc = z3.Function("FPCNT", AI, AI, INT, INT, INT)     # FPCNT(lab, prd, c, i) = #{t < i: prd[t] = c and lab[t] != c}
FNc = z3.Function("FNCNT", AI, AI, INT, INT, INT)     # FNCNT(lab, prd, c, i) = #{t < i: lab[t] = c and prd[t] != c}


def err_defs(lab, prd):
    c, i = z3.Ints("ec_c ec_i")
    return z3.And(
        z3.ForAll([c], FPc(lab, prd, c, 0) == 0, patterns=[FPc(lab, prd, c, 0)]),
        z3.ForAll([c], FNc(lab, prd, c, 0) == 0, patterns=[FNc(lab, prd, c, 0)]),
        z3.ForAll([c, i], z3.Implies(i >= 0, z3.And(
            FPc(lab, prd, c, i + 1) == FPc(lab, prd, c, i) + z3.If(z3.And(prd[i] == c, lab[i] != c), 1, 0),
            FNc(lab, prd, c, i + 1) == FNc(lab, prd, c, i) + z3.If(z3.And(lab[i] == c, prd[i] != c), 1, 0))),
        patterns=[FPc(lab, prd, c, i + 1), FNc(lab, prd, c, i + 1),
                  z3.MultiPattern(FPc(lab, prd, c, i), z3.Select(lab, i)),
                  z3.MultiPattern(FNc(lab, prd, c, i), z3.Select(lab, i))]))


def acc_summand(v, c):
    lab, prd = v.labels.arr, v.preds.arr
    N = lift(length(v.labels), INT)
    Nc = CNT(lab, c, N)
    return realval(FPc(lab, prd, c, N)) / realval(N - Nc) + realval(FNc(lab, prd, c, N)) / realval(Nc)


contract(G + "opf_accuracy", params={"labels": "list[int]", "preds": "list[int]", "return": "real"},
         props=["C20", "C16"],
         requires=lambda v: labels_ok(v.labels, v.preds, K_of(v)) + [("two_classes", ge(K_of(v), 2))],
         defs=lambda v: [("err_defs", err_defs(v.labels.arr, v.preds.arr)), ("cnt_def", cnt_def(v.labels.arr)),
                         ("maxp1_def", maxp1_def(v.labels))],
         lemmas=[("before:errors[:, 1] /= counts", "cnt_bounds", lambda v: {"arr": v.labels}),
                 ("before:errors[:, 1] /= counts", "err_bounds", lambda v: {"lab": v.labels, "prd": v.preds})],
         assumes=[("after:errors = np.nansum(errors, axis=1)", lambda v, old: rsum_axiom_instances(v.errors, v.n_class))],
         late_hints=[("before:errors[:, 1] /= counts", lambda v, old: [
             ("classes_0_and_1_present", conj(ge(CNT(v.labels.arr, 0, lift(length(v.labels), INT)), 1),
                                              ge(CNT(v.labels.arr, 1, lift(length(v.labels), INT)), 1))),
             ("every_class_counted", forall(0, v.n_class, lambda c: ge(CNT(v.labels.arr, c, lift(length(v.labels), INT)), 1))),
             ("others_exist", forall(0, v.n_class, lambda c: ge(
                 lift(length(v.labels), INT) - CNT(v.labels.arr, c, lift(length(v.labels), INT)), 1))),
         ])],
         hints=[("after:errors = np.nansum(errors, axis=1)", lambda v, old: [
             ("summand_range", forall(0, v.n_class, lambda c: conj(ge(v.errors[c], 0), le(v.errors[c], 2)))),
             ("summand_zero_iff", forall(0, v.n_class, lambda c: iff(eq(v.errors[c], 0), conj(
                 eq(FPc(v.labels.arr, v.preds.arr, c, lift(length(v.labels), INT)), 0),
                 eq(FNc(v.labels.arr, v.preds.arr, c, lift(length(v.labels), INT)), 0))))),
             ("all_correct_gives_zero", implies(forall(0, length(v.labels), lambda t: eq(v.labels[t], v.preds[t])),
                                                forall(0, v.n_class, lambda c: eq(v.errors[c], 0)))),
             ("a_wrong_one_gives_nonzero", forall(0, length(v.labels), lambda t: implies(
                 ne(v.labels[t], v.preds[t]),
                 conj(ge(FNc(v.labels.arr, v.preds.arr, v.labels[t], lift(length(v.labels), INT)), 1),
                      ne(v.errors[v.labels[t]], 0))))),
         ])],
         ensures=lambda v, old, result: [] if MODE.kind != "sym" else [
             ("range", conj(ge(result, 0), le(result, 1))),
             ("one_iff_all_correct", iff(eq(result, 1), forall(0, length(v.labels), lambda t: eq(v.labels[t], v.preds[t])))),
             # 1 - (1/2K) * sum over classes of (FP_c / (N - N_c) + FN_c / N_c), the sum being np.sum of the summand vector
             ("formula", exists(0, 1, lambda _u: True) if False else eq(
                 result, 1 - RSUM(v.ghost("g_summands", "list[real]").arr, lift(K_of(v), INT)) / (2 * realval(K_of(v))))),
             ("summands", forall(0, K_of(v), lambda c: eq(v.ghost("g_summands", "list[real]")[c], acc_summand(v, c)))),
         ],
         ghost=[("after:errors = np.nansum(errors, axis=1)", "g_summands = errors")],
         loops=[LoopSpec("for", var="(label, pred)", inv=lambda v, old, le_: [
             ("shape", conj(eq(v.n_class, K_of(v)), eq(v.errors.nrows, v.n_class), eq(v.errors.ncols, 2),
                            eq(length(v.counts), v.n_class), le(v.loop0_k, length(v.labels)))),
             ("counts", forall(0, v.n_class, lambda c: eq(v.counts[c], CNT(v.labels.arr, c, lift(length(v.labels), INT))))),
             ("errors", forall(0, v.n_class, lambda c: conj(
                 eq(v.errors[c][0], FPc(v.labels.arr, v.preds.arr, c, lift(v.loop0_k, INT))),
                 eq(v.errors[c][1], FNc(v.labels.arr, v.preds.arr, c, lift(v.loop0_k, INT))))))])])


# ---------------------------------------------------------------- counting lemmas (strong induction on the prefix length)
from pyvc.contracts import lemma   # noqa: E402


def _cnt_concl(arr, k):
    c, d = z3.Ints("cb_c cb_d")
    a = arr.arr
    return z3.ForAll([c, d], z3.And(
        CNT(a, c, k) >= 0, CNT(a, c, k) <= k,
        z3.Implies(c != d, CNT(a, c, k) + CNT(a, d, k) <= k),
        z3.Implies(z3.Exists([z3.Int("cb_t")], z3.And(z3.Int("cb_t") >= 0, z3.Int("cb_t") < k,
                                                     z3.Select(a, z3.Int("cb_t")) == c)), CNT(a, c, k) >= 1)),
        patterns=[z3.MultiPattern(CNT(a, c, k), CNT(a, d, k))])


lemma("cnt_bounds", params={"arr": "list[int]"}, props=["C20"],
      hyp=lambda arr: [("cnt_def", cnt_def(arr.arr)), ("len", ge(length(arr), 0))],
      concl=lambda arr, k: _cnt_concl(arr, k),
      hints=lambda arr, k: [
          ("unfold", implies(ge(k, 1), z3.ForAll([z3.Int("uf_c")], CNT(arr.arr, z3.Int("uf_c"), k) == CNT(
              arr.arr, z3.Int("uf_c"), k - 1) + z3.If(z3.Select(arr.arr, k - 1) == z3.Int("uf_c"), 1, 0),
              patterns=[CNT(arr.arr, z3.Int("uf_c"), k)]))),
          ("base", implies(eq(k, 0), z3.ForAll([z3.Int("uf_c")], CNT(arr.arr, z3.Int("uf_c"), k) == 0,
                                               patterns=[CNT(arr.arr, z3.Int("uf_c"), k)]))),
          ("pred", implies(ge(k, 1), _cnt_concl(arr, k - 1)))],
      lo=lambda arr: 0, hi=lambda arr: length(arr) + 1)


# ---------------------------------------------------------------- opf_accuracy_per_label: recall of each class

contract(G + "opf_accuracy_per_label", params={"labels": "list[int]", "preds": "list[int]", "return": "list[real]"},
         props=["C20"],
         requires=lambda v: labels_ok(v.labels, v.preds, K_of(v)),
         defs=lambda v: [("err_defs", err_defs(v.labels.arr, v.preds.arr)), ("cnt_def", cnt_def(v.labels.arr)),
                         ("maxp1_def", maxp1_def(v.labels))],
         lemmas=[("before:errors /= counts", "cnt_bounds", lambda v: {"arr": v.labels})],
         ensures=lambda v, old, result: [] if MODE.kind != "sym" else [
             ("len", eq(length(result), K_of(v))),
             ("recall", forall(0, K_of(v), lambda c: eq(result[c], 1 - realval(FNc(v.labels.arr, v.preds.arr, c,
                                                                                    lift(length(v.labels), INT)))
                                                        / realval(CNT(v.labels.arr, c, lift(length(v.labels), INT))))))],
         loops=[LoopSpec("for", var="(label, pred)", inv=lambda v, old, le_: [
             ("shape", conj(eq(v.n_class, K_of(v)), eq(length(v.errors), v.n_class), eq(length(v.counts), v.n_class),
                            le(v.loop0_k, length(v.labels)))),
             ("counts", forall(0, v.n_class, lambda c: eq(v.counts[c], CNT(v.labels.arr, c, lift(length(v.labels), INT))))),
             ("errors", forall(0, v.n_class, lambda c: eq(v.errors[c], FNc(v.labels.arr, v.preds.arr, c,
                                                                            lift(v.loop0_k, INT)))))])])


# ---------------------------------------------------------------- purity = (sum over predicted groups of the largest true class) / N

contract(G + "purity", params={"labels": "list[int]", "preds": "list[int]", "return": "real"}, props=["C20"],
         requires=lambda v: labels_ok(v.labels, v.preds, K_of(v)),
         defs=lambda v: [("pair_def", pair_def(v.labels.arr, v.preds.arr)), ("maxp1_def", maxp1_def(v.labels))],
         ensures=lambda v, old, result: [] if MODE.kind != "sym" else [
             ("formula", eq(result, RSUM(v.ghost("g_colmax", "list[real]").arr, lift(K_of(v), INT))
                            / realval(lift(length(v.labels), INT)))),
             ("colmax_upper", forall(0, K_of(v), lambda a, b: le(
                 PAIR(v.labels.arr, v.preds.arr, a, b, lift(length(v.labels), INT)), v.ghost("g_colmax", "list[real]")[b]))),
             ("colmax_attained", forall(0, K_of(v), lambda b: exists(0, K_of(v), lambda a: eq(
                 realval(PAIR(v.labels.arr, v.preds.arr, a, b, lift(length(v.labels), INT))),
                 v.ghost("g_colmax", "list[real]")[b])))),
         ],
         ghost=[("after:c_matrix = confusion_matrix(labels, preds)", "g_colmax = np.max(c_matrix, axis=0)")])


def rsum_axiom_instances(e, n):
    """ASSUMED contract of np.sum on the float vector e[0..n): bounds are preserved, and a sum of non-negative terms is 0
    exactly when every term is 0 (instantiated for this vector; listed in the trusted base)"""
    S = RSUM(e.arr, lift(n, INT))
    return [
        ("np.sum: termwise bounds 0..2 give 0 .. 2n", implies(forall(0, n, lambda c: conj(ge(e[c], 0), le(e[c], 2))),
                                                              conj(ge(S, 0), le(S, 2 * realval(lift(n, INT)))))),
        ("np.sum: a sum of non-negative terms is 0 iff all are 0", implies(forall(0, n, lambda c: ge(e[c], 0)),
                                                                           iff(eq(S, 0), forall(0, n, lambda c: eq(e[c], 0))))),
    ]


def _err_concl(lab, prd, k):
    c = z3.Int("eb_c")
    t = z3.Int("eb_t")
    la, pa = lab.arr, prd.arr
    return z3.ForAll([c], z3.And(
        FNc(la, pa, c, k) >= 0, FNc(la, pa, c, k) <= CNT(la, c, k),
        FPc(la, pa, c, k) >= 0, FPc(la, pa, c, k) <= k - CNT(la, c, k),
        z3.Implies(z3.Exists([t], z3.And(t >= 0, t < k, z3.Select(la, t) == c, z3.Select(pa, t) != c)), FNc(la, pa, c, k) >= 1),
        z3.Implies(z3.ForAll([t], z3.Implies(z3.And(t >= 0, t < k), z3.Select(la, t) == z3.Select(pa, t)),
                             patterns=[z3.Select(la, t)]),
                   z3.And(FNc(la, pa, c, k) == 0, FPc(la, pa, c, k) == 0))),
        patterns=[FNc(la, pa, c, k), FPc(la, pa, c, k), CNT(la, c, k)])


lemma("err_bounds", params={"lab": "list[int]", "prd": "list[int]"}, props=["C20"],
      hyp=lambda lab, prd: [("cnt_def", cnt_def(lab.arr)), ("err_defs", err_defs(lab.arr, prd.arr)),
                            ("len", ge(length(lab), 0))],
      concl=lambda lab, prd, k: _err_concl(lab, prd, k),
      hints=lambda lab, prd, k: [
          ("unfold", implies(ge(k, 1), z3.ForAll([z3.Int("uf_c")], z3.And(
              CNT(lab.arr, z3.Int("uf_c"), k) == CNT(lab.arr, z3.Int("uf_c"), k - 1)
              + z3.If(z3.Select(lab.arr, k - 1) == z3.Int("uf_c"), 1, 0),
              FPc(lab.arr, prd.arr, z3.Int("uf_c"), k) == FPc(lab.arr, prd.arr, z3.Int("uf_c"), k - 1) + z3.If(z3.And(
                  z3.Select(prd.arr, k - 1) == z3.Int("uf_c"), z3.Select(lab.arr, k - 1) != z3.Int("uf_c")), 1, 0),
              FNc(lab.arr, prd.arr, z3.Int("uf_c"), k) == FNc(lab.arr, prd.arr, z3.Int("uf_c"), k - 1) + z3.If(z3.And(
                  z3.Select(lab.arr, k - 1) == z3.Int("uf_c"), z3.Select(prd.arr, k - 1) != z3.Int("uf_c")), 1, 0)),
              patterns=[CNT(lab.arr, z3.Int("uf_c"), k), FPc(lab.arr, prd.arr, z3.Int("uf_c"), k),
                        FNc(lab.arr, prd.arr, z3.Int("uf_c"), k)]))),
          ("base", implies(eq(k, 0), z3.ForAll([z3.Int("uf_c")], z3.And(
              CNT(lab.arr, z3.Int("uf_c"), k) == 0, FPc(lab.arr, prd.arr, z3.Int("uf_c"), k) == 0,
              FNc(lab.arr, prd.arr, z3.Int("uf_c"), k) == 0),
              patterns=[CNT(lab.arr, z3.Int("uf_c"), k), FPc(lab.arr, prd.arr, z3.Int("uf_c"), k)]))),
          ("pred", implies(ge(k, 1), _err_concl(lab, prd, k - 1)))],
      lo=lambda lab, prd: 0, hi=lambda lab, prd: length(lab) + 1)


# ---------------------------------------------------------------- normalize: (value - column mean) / column std
from pyvc.contracts import STATICS   # noqa: E402
import ast as _ast                   # noqa: E402


def _normalize_static(repo):
    """normalize is three numpy statements; under numpy's broadcasting contract (a (rows x cols) array combined with a
    length-cols vector operates column-wise) the body computes (A[i][j] - MEAN_j) / STD_j iff it has exactly this shape"""
    from pyvc.source import strip_docstring
    fn, _, _ = repo.function("opfython.math.general.normalize")
    body = [" ".join(_ast.unparse(s).split()) for s in strip_docstring(fn)]
    want = ["mean = np.mean(array, axis=0)", "std = np.std(array, axis=0)", "norm_array = (array - mean) / std",
            "return norm_array"]
    # accept any straight-line body that evaluates to (array - np.mean(array, axis=0)) / np.std(array, axis=0)
    env = {"array": "array"}
    val = None
    ok = True
    for st in strip_docstring(fn):
        if isinstance(st, _ast.Assign) and len(st.targets) == 1 and isinstance(st.targets[0], _ast.Name):
            env[st.targets[0].id] = _subst(st.value, env)
        elif isinstance(st, _ast.Return):
            val = _subst(st.value, env)
        else:
            ok = False
    canon = "(array - np.mean(array, axis=0)) / np.std(array, axis=0)"
    return [("normalize/column-wise-standard-score", ok and val == canon, fn.lineno, "value: %s" % val)]


def _subst(e, env):
    class S(_ast.NodeTransformer):
        def visit_Name(self, n):
            if n.id in env and env[n.id] != n.id:
                return _ast.parse("(" + env[n.id] + ")", mode="eval").body
            return n
    import copy
    return " ".join(_ast.unparse(S().visit(copy.deepcopy(e))).split())


STATICS["normalize"] = _normalize_static
