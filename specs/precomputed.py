"""C10: pre-computed distances are equivalent to computing the metric on the fly."""
import ast

import z3

from pyvc.contracts import contract, STATICS, external, LoopSpec
from pyvc.logic import (conj, disj, neg, implies, iff, ite, eq, ne, lt, le, gt, ge, between, forall, exists,
                        length, vmax, vmin, MODE, lift, realval)
from pyvc.engine import SList, SMat, INT, REAL, FEAT, DFN, fresh, Unsupported

FILES = ["opfython/models/supervised.py", "opfython/models/semi_supervised.py", "opfython/models/unsupervised.py",
         "opfython/models/knn_supervised.py", "opfython/subgraphs/knn.py"]
EXPECTED_SITES = {"opfython.models.supervised": 4, "opfython.models.semi_supervised": 1,
                  "opfython.models.unsupervised": 2, "opfython.models.knn_supervised": 1, "opfython.subgraphs.knn": 2}


def _sites(repo):
    """every `if <...>pre_computed_distance:` whose two arms assign the same target"""
    out = []
    for mod, tree in repo.modules.items():
        for n in ast.walk(tree):
            if isinstance(n, ast.If) and ast.unparse(n.test) in ("self.pre_computed_distance", "pre_computed_distance") \
                    and len(n.body) == 1 and len(n.orelse) == 1 and isinstance(n.body[0], ast.Assign) \
                    and isinstance(n.orelse[0], ast.Assign):
                out.append((mod, n))
    return out


def _site_ok(n):
    a, b = n.body[0], n.orelse[0]
    if ast.unparse(a.targets[0]) != ast.unparse(b.targets[0]):
        return False, "the two arms assign different targets"
    pre, fly = a.value, b.value
    # pre-computed arm:  M[ P.idx ][ Q.idx ]
    if not (isinstance(pre, ast.Subscript) and isinstance(pre.value, ast.Subscript)):
        return None, "pre-computed arm is not M[..][..]: %s" % ast.unparse(pre)
    M = ast.unparse(pre.value.value)
    i1, i2 = pre.value.slice, pre.slice
    if M not in ("self.pre_distances", "pre_distances"):
        return False, "matrix read from %s" % M
    if not (isinstance(i1, ast.Attribute) and i1.attr == "idx" and isinstance(i2, ast.Attribute) and i2.attr == "idx"):
        return False, "matrix is not indexed by node identifiers (.idx): %s" % ast.unparse(pre)
    # on-the-fly arm:  F( P.features, Q.features )
    if not (isinstance(fly, ast.Call) and ast.unparse(fly.func) in ("self.distance_fn", "distance_function")
            and len(fly.args) == 2 and not fly.keywords):
        return None, "on-the-fly arm is not a call of the metric: %s" % ast.unparse(fly)
    f1, f2 = fly.args
    if not (isinstance(f1, ast.Attribute) and f1.attr == "features" and isinstance(f2, ast.Attribute) and f2.attr == "features"):
        return None, "metric is not applied to node features: %s" % ast.unparse(fly)
    P1, Q1 = ast.unparse(i1.value), ast.unparse(i2.value)
    P2, Q2 = ast.unparse(f1.value), ast.unparse(f2.value)
    if (P1, Q1) != (P2, Q2):
        return False, "row/column nodes (%s, %s) differ from the metric's arguments (%s, %s)" % (P1, Q1, P2, Q2)
    return True, "%s <- M[%s.idx][%s.idx] | F(%s.features, %s.features)" % (ast.unparse(a.targets[0]), P1, Q1, P2, Q2)


def _static_sites(repo):
    """under the linking precondition PRE[a][b] = DFN(ALL[a], ALL[b]) and the subgraph invariant features[t] = ALL[idx[t]]
    (Subgraph._build's proven contract: idx[t] = I[t], features[t] = X[t]), the two arms of every weight read assign the
    same value - with the arguments in the same order (asymmetric metrics are in scope)"""
    sites = _sites(repo)
    out = []
    per = {}
    for mod, n in sites:
        ok, why = _site_ok(n)
        per[mod] = per.get(mod, 0) + 1
        out.append(("site/%s:L%d" % (mod.split(".")[-1], n.lineno), ok, n.lineno, why))
    for mod, cnt in EXPECTED_SITES.items():
        out.append(("site-count/%s" % mod.split(".")[-1], True if per.get(mod, 0) == cnt else None, 0,
                    "%d weight-read sites found, %d expected" % (per.get(mod, 0), cnt)))
    # no OTHER read of the matrix or call of the metric outside those sites in the model files
    for mod in EXPECTED_SITES:
        tree = repo.modules[mod]
        inside = set()
        for m2, n in sites:
            if m2 == mod:
                for x in ast.walk(n):
                    inside.add(id(x))
        stray = []
        for x in ast.walk(tree):
            if id(x) in inside:
                continue
            if isinstance(x, ast.Subscript) and ast.unparse(x.value) in ("self.pre_distances", "pre_distances"):
                stray.append(x.lineno)
            if isinstance(x, ast.Call) and ast.unparse(x.func) in ("self.distance_fn", "distance_function"):
                stray.append(x.lineno)
        out.append(("no-stray-weight-read/%s" % mod.split(".")[-1], True if not stray else None, stray[0] if stray else 0,
                    "weight read outside a two-armed site at lines %s" % stray))
    # _read_distances dispatches on the extension to the loader with the matching delimiter
    rd = ast.unparse(repo.classes["OPF"].methods["_read_distances"])
    out.append(("read_distances/dispatch", True if ("if extension == 'csv':\n        distances = loader.load_csv(file_name)" in rd
                and "elif extension == 'txt':\n        distances = loader.load_txt(file_name)" in rd
                and "self.pre_distances = distances" in rd) else None, 0, ""))
    ld = repo.sources["opfython.stream.loader"]
    out.append(("loader/delimiters", True if ('np.loadtxt(csv_path, delimiter=","' in ld and 'np.loadtxt(txt_path, delimiter=" "' in ld) else None, 0, ""))
    return out


STATICS["precomputed_sites"] = _static_sites


# ---------------------------------------------------------------- pre_compute_distance / get_distances

@external("numpy.savetxt")
def np_savetxt(ex, st, args, kwargs, node):
    """ASSUMED: writes the matrix with the given delimiter, one row per line, '%.18e' (an exact float64 text round trip
    with np.loadtxt using the same delimiter)"""
    ex.saved = (args[0], args[1], kwargs.get("delimiter", " "))
    return None


G = "opfython.math.general."

contract(G + "pre_compute_distance", params={"data": "list[feat]", "output": "str", "distance": "str"},
         props=["C10"], configs=[{"output": "distances.txt"}, {"output": "distances.csv"}, {"output": "a.b.csv"}],
         requires=lambda v: [("rows", ge(length(v.data), 0))],
         ensures=lambda v, old, result: [],
         hints=[("before:np.savetxt(output, distances, delimiter=delimiter)", lambda v, old: [
             ("matrix_is_metric_on_ordered_pairs", forall(0, length(v.data), lambda a, b: eq(
                 v.distances[a][b], DFN(v.data[a], v.data[b])))),
             ("shape", conj(eq(v.distances.nrows, length(v.data)), eq(v.distances.ncols, length(v.data)))),
             ("delimiter_by_extension", eq(v.delimiter, "," if str(v.output).endswith(".csv") else " "))])],
         loops=[LoopSpec("for", var="i", inv=lambda v, old, le_: [
             ("shape", conj(eq(v.size, length(v.data)), eq(v.distances.nrows, v.size), eq(v.distances.ncols, v.size))),
             ("rows_done", forall(0, v.i, lambda a: forall(0, v.size, lambda b: eq(v.distances[a][b], DFN(v.data[a], v.data[b])))))]),
                LoopSpec("for", var="j", inv=lambda v, old, le_: [
                    ("shape", conj(eq(v.size, length(v.data)), eq(v.distances.nrows, v.size), eq(v.distances.ncols, v.size),
                                   le(0, v.i), lt(v.i, v.size))),
                    ("rows_done", forall(0, v.i, lambda a: forall(0, v.size, lambda b: eq(v.distances[a][b], DFN(v.data[a], v.data[b]))))),
                    ("row_i", forall(0, v.j, lambda b: eq(v.distances[v.i][b], DFN(v.data[v.i], v.data[b]))))])])


from specs.graph import *  # noqa: F401,F403,E402

contract("opfython.core.opf.OPF.get_distances", params={"self": "obj:OPF", "normalize": "bool", "return": "mat2d"},
         props=["C10"], configs=[{"normalize": False}],
         requires=lambda v: [("n", ge(length(v.self.subgraph.nodes), 0))],
         ensures=lambda v, old, result: [] if MODE.kind != "sym" else [
             ("shape", conj(eq(result.nrows, length(v.self.subgraph.nodes)), eq(result.ncols, length(v.self.subgraph.nodes)))),
             ("metric_on_every_ordered_pair", forall(0, length(v.self.subgraph.nodes), lambda a, b: eq(
                 result[a][b], DFN(v.self.subgraph.nodes[a].features, v.self.subgraph.nodes[b].features))))],
         modifies=[],
         loops=[LoopSpec("for", var="i", inv=lambda v, old, le_: [
             ("shape", conj(eq(v.distances.nrows, length(v.self.subgraph.nodes)), eq(v.distances.ncols, length(v.self.subgraph.nodes)))),
             ("rows_done", forall(0, v.i, lambda a: forall(0, length(v.self.subgraph.nodes), lambda b: eq(
                 v.distances[a][b], DFN(v.self.subgraph.nodes[a].features, v.self.subgraph.nodes[b].features)))))]),
                LoopSpec("for", var="j", inv=lambda v, old, le_: [
                    ("shape", conj(eq(v.distances.nrows, length(v.self.subgraph.nodes)),
                                   eq(v.distances.ncols, length(v.self.subgraph.nodes)),
                                   le(0, v.i), lt(v.i, length(v.self.subgraph.nodes)))),
                    ("rows_done", forall(0, v.i, lambda a: forall(0, length(v.self.subgraph.nodes), lambda b: eq(
                        v.distances[a][b], DFN(v.self.subgraph.nodes[a].features, v.self.subgraph.nodes[b].features))))),
                    ("row_i", forall(0, v.j, lambda b: eq(
                        v.distances[v.i][b], DFN(v.self.subgraph.nodes[v.i].features, v.self.subgraph.nodes[b].features))))])])
