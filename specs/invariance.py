"""C11 (monotone rescaling half) and C19 (frame part): finite obligations over the AST and small real-arithmetic lemmas."""
import ast

import z3

from pyvc.contracts import STATICS
from pyvc.source import strip_docstring

COST_NAMES = {"weight", "current_cost", "min_cost", "temp_min_cost", "cost"}
ORDER_ONLY_FUNCS = ["opfython.core.heap.Heap.go_up", "opfython.core.heap.Heap.go_down", "opfython.core.heap.Heap.insert",
                    "opfython.core.heap.Heap.remove", "opfython.core.heap.Heap.update",
                    "opfython.models.supervised.SupervisedOPF._find_prototypes",
                    "opfython.models.supervised.SupervisedOPF.fit", "opfython.models.supervised.SupervisedOPF.predict"]


def _is_cost(e):
    """syntactic: does this expression denote a cost / arc weight?"""
    if isinstance(e, ast.Name):
        return e.id in COST_NAMES
    if isinstance(e, ast.Attribute):
        return e.attr in ("cost", "_cost")
    if isinstance(e, ast.Subscript):
        s = ast.unparse(e.value)
        return _is_cost(e.value) or "pre_distances" in s
    if isinstance(e, ast.Call):
        f = ast.unparse(e.func)
        if f in ("self.distance_fn", "distance_function", "np.maximum", "np.minimum"):
            return True
    return False


def _order_only(repo):
    """costs and arc weights are used only through comparisons, np.maximum / np.minimum, copies, and the sentinels 0 and
    FLOAT_MAX - never through arithmetic, conversion or indexing.  A program with that discipline computes the same
    predecessor map, labels, order and predictions for W and for phi(W), phi strictly increasing with phi(0) = 0 and
    phi(FLOAT_MAX) = FLOAT_MAX (costs related by phi): the coupling 'cost-typed values related by phi, everything else
    equal' is preserved by every such statement (pencil meta-argument, one case per statement form)."""
    out = []
    for q in ORDER_ONLY_FUNCS:
        if q not in repo.functions:
            out.append(("order-only/%s/present" % q.split(".")[-1], None, 0, "function not found"))
            continue
        fn = repo.functions[q][0]
        bad = []
        unsure = []
        for n in ast.walk(fn):
            if isinstance(n, ast.BinOp) and (_is_cost(n.left) or _is_cost(n.right)):
                bad.append((n.lineno, "arithmetic `%s`" % ast.unparse(n)))
            elif isinstance(n, ast.UnaryOp) and isinstance(n.op, (ast.USub, ast.UAdd)) and _is_cost(n.operand):
                bad.append((n.lineno, "sign change `%s`" % ast.unparse(n)))
            elif isinstance(n, ast.AugAssign) and (_is_cost(n.target) or _is_cost(n.value)):
                bad.append((n.lineno, "in-place arithmetic `%s`" % ast.unparse(n)))
            elif isinstance(n, ast.Call) and ast.unparse(n.func) in ("int", "float", "round", "abs", "np.exp", "np.log",
                                                                      "math.log", "math.exp", "np.fabs") \
                    and any(_is_cost(a) for a in n.args):
                bad.append((n.lineno, "conversion `%s`" % ast.unparse(n)))
            elif isinstance(n, ast.Subscript) and _is_cost(n.slice):
                bad.append((n.lineno, "cost used as an index `%s`" % ast.unparse(n)))
            elif isinstance(n, ast.Compare):
                ops = [n.left] + list(n.comparators)
                if any(_is_cost(o) for o in ops):
                    for o in ops:
                        if not _is_cost(o) and ast.unparse(o) not in ("0", "0.0", "c.FLOAT_MAX"):
                            unsure.append((n.lineno, "cost compared with a value not recognised as a cost `%s`" % ast.unparse(o)))
            elif isinstance(n, ast.Assign) and _is_cost(n.targets[0]) and not _is_cost(n.value) \
                    and ast.unparse(n.value) not in ("0", "0.0", "c.FLOAT_MAX"):
                if not (isinstance(n.value, ast.Name) and n.value.id in COST_NAMES):
                    unsure.append((n.lineno, "cost assigned from an expression not recognised as a cost `%s`" % ast.unparse(n)))
        # arithmetic / conversion / indexing on a cost is a definite breach of the discipline; an expression the
        # syntactic typing does not recognise (a new helper, a renamed local) gives no verdict
        verdict = False if bad else (None if unsure else True)
        lst = bad or unsure
        out.append(("order-only/%s" % ".".join(q.split(".")[-2:]), verdict, lst[0][0] if lst else fn.lineno,
                    "; ".join("L%d %s" % b for b in lst[:3])))
    return out


STATICS["order_only"] = _order_only


def _monotone_family(repo):
    """the five Euclidean-family identifiers are strictly increasing functions of s = sum (x_i - y_i)^2 on s >= 0 and vanish
    at s = 0 (closed forms proved in C06): s, sqrt(s), sqrt(s / n), M log(sqrt(s) + 1), M log(s + 1).
    ASSUMED about log: strictly increasing on the positive reals, log(1) = 0."""
    s1, s2, n = z3.Reals("s1 s2 n")
    SQ = z3.Function("SQRT", z3.RealSort(), z3.RealSort())
    LG = z3.Function("LOG", z3.RealSort(), z3.RealSort())
    M = repo.constants["MAX_ARC_WEIGHT"]
    u, w = z3.Reals("u w")
    sq_ax = lambda t: z3.And(SQ(t) >= 0, SQ(t) * SQ(t) == t)
    log_ax = z3.And(z3.ForAll([u, w], z3.Implies(z3.And(u > 0, u < w), LG(u) < LG(w)), patterns=[z3.MultiPattern(LG(u), LG(w))]),
                    LG(1) == 0)
    base = [s1 >= 0, s1 < s2, n >= 1, M > 0]
    forms = {
        "squared_euclidean": (s1, s2, 0),
        "euclidean": (SQ(s1), SQ(s2), SQ(0)),
        "average_euclidean": (SQ(s1 / n), SQ(s2 / n), SQ(0 / n)),
        "log_euclidean": (M * LG(SQ(s1) + 1), M * LG(SQ(s2) + 1), M * LG(SQ(0) + 1)),
        "log_squared_euclidean": (M * LG(s1 + 1), M * LG(s2 + 1), M * LG(z3.RealVal(0) + 1)),
    }
    out = []
    for name, (f1, f2, f0) in forms.items():
        s = z3.Solver()
        s.set("timeout", 10000)
        for t in (s1, s2, s1 / n, s2 / n, z3.RealVal(0), z3.RealVal(0) / n):
            s.add(sq_ax(t))
        s.add(log_ax)
        for b in base:
            s.add(b)
        s.push()
        s.add(z3.Not(f1 < f2))
        inc = s.check() == z3.unsat
        s.pop()
        s.add(z3.Not(f0 == 0))
        zero = s.check() == z3.unsat
        out.append(("monotone/%s/strictly-increasing-in-sum-of-squares" % name, True if inc else None, 0, ""))
        out.append(("monotone/%s/zero-at-zero" % name, True if zero else None, 0, ""))
    return out


STATICS["monotone_family"] = _monotone_family


def _pickle_frame(repo):
    """C19, the part contracts can state: `save` only opens a file and pickles self; `load` makes every attribute of the
    unpickled object an attribute of self; no class customises pickling"""
    out = []
    custom = []
    for cname, ci in repo.classes.items():
        for m in ("__getstate__", "__setstate__", "__reduce__", "__reduce_ex__", "__getnewargs__", "__copy__", "__deepcopy__"):
            if m in ci.methods:
                custom.append("%s.%s" % (cname, m))
    out.append(("pickle/no-class-customises-pickling", True if not custom else None, 0, ", ".join(custom)))
    save = [" ".join(ast.unparse(s).split()) for s in strip_docstring(repo.classes["OPF"].methods["save"])
            if not (isinstance(s, ast.Expr) and "logger" in ast.unparse(s))]
    load = [" ".join(ast.unparse(s).split()) for s in strip_docstring(repo.classes["OPF"].methods["load"])
            if not (isinstance(s, ast.Expr) and "logger" in ast.unparse(s))]
    out.append(("pickle/save-dumps-self", True if save == ["with open(file_name, 'wb') as dest_file: pickle.dump(self, dest_file)"] else None, 0, str(save)))
    out.append(("pickle/load-adopts-every-attribute",
                True if load == ["with open(file_name, 'rb') as origin_file: opf = pickle.load(origin_file) self.__dict__.update(opf.__dict__)"] else None,
                0, str(load)))
    return out


STATICS["pickle_frame"] = _pickle_frame
