"""Contracts for opfython/models/supervised.py: _find_prototypes (C02), fit (C01), predict (C03, C17)."""
from pyvc.contracts import contract, schema, lemma, LoopSpec
from pyvc.logic import (conj, disj, neg, implies, iff, ite, eq, ne, lt, le, gt, ge, between, forall, exists,
                        length, vmax, vmin, MODE)
from specs.graph import *  # noqa: F401,F403
from specs.graph import W, metric_hyp, statuses_ok, node_static_same
from specs import heap as HP

S = "opfython.models.supervised.SupervisedOPF."


# ------------------------------------------------------------------ Subgraph construction (assumed for now)

contract("opfython.core.subgraph.Subgraph.__init__",
         params={"self": "obj:Subgraph", "X": "list[feat]", "Y": "list[int]", "I": "optlist[int]", "from_file": "none"},
         trusted=True, props=["C01", "C02", "C03", "C15"],
         requires=lambda v: [("nonempty", ge(length(v.X), 1)), ("same_len", eq(length(v.X), length(v.Y))),
                             ("labels_nonneg", forall(0, length(v.Y), lambda i: ge(v.Y[i], 0)))],
         ensures=lambda v, old, result: [
             ("n", eq(length(v.self.nodes), length(v.X))),
             ("fields", forall(0, length(v.X), lambda i: conj(
                 eq(v.self.nodes[i].label, v.Y[i]), eq(v.self.nodes[i].features, v.X[i]),
                 ge(v.self.nodes[i].idx, 0),
                 eq(v.self.nodes[i].idx, ite(v.I.present, v.I[i], i)),
                 eq(v.self.nodes[i].status, STANDARD), eq(v.self.nodes[i].pred, NIL),
                 eq(v.self.nodes[i].relevant, IRRELEVANT), eq(v.self.nodes[i].predicted_label, 0),
                 eq(v.self.nodes[i].cost, 0)))),
             ("ord_empty", eq(length(v.self.idx_nodes), 0)),
             ("untrained", eq(v.self.trained, False)),
         ],
         modifies=["self.nodes", "self.idx_nodes", "self.trained", "self.n_features", "self.n_nodes_"])


# ------------------------------------------------------------------ _find_prototypes (Prim)

def two_classes(sg):
    n = length(sg.nodes)
    return exists(0, n, lambda x, y: ne(sg.nodes[x].label, sg.nodes[y].label))


def fp_requires(v):
    m, sg = v.self, v.self.subgraph
    n = length(sg.nodes)
    return [("n", ge(n, 1)),
            ("metric", metric_hyp()),
            ("fresh", forall(0, n, lambda x: conj(eq(sg.nodes[x].status, STANDARD), ge(sg.nodes[x].label, 0)))),
            ("two_classes", two_classes(sg))]


def fp_common(v, old):
    """facts about the outer state shared by the two loops of _find_prototypes"""
    m, sg, o = v.self, v.self.subgraph, old.self.subgraph
    h = v.h
    n = length(sg.nodes)
    N = sg.nodes
    return [
        ("heap", conj(HP.inv(h), eq(h.size, n), eq(h.policy, "min"))),
        ("static", conj(node_static_same(sg, o), eq(m.pre_computed_distance, old.self.pre_computed_distance))),
        ("status_ok", statuses_ok(sg)),
        ("cost_range", forall(0, n, lambda x: conj(le(0, h.cost[x]), le(h.cost[x], FLOAT_MAX)))),
        # queued, non-root nodes hang on a BLACK node
        ("pred_black", forall(0, n, lambda x: implies(conj(ne(h.color[x], WHITE), ne(x, 0)),
                                                      conj(le(0, N[x].pred), lt(N[x].pred, n),
                                                           eq(h.color[N[x].pred], BLACK))))),
        ("root", conj(eq(N[0].pred, NIL), ne(h.color[0], WHITE))),
        ("white_max", forall(0, n, lambda x: implies(eq(h.color[x], WHITE), eq(h.cost[x], FLOAT_MAX)))),
        # prototypes come in bichromatic tree arcs; BLACK nodes of an all-one-label prefix have no prototype yet
        ("proto_or_mono", disj(exists(0, n, lambda x: eq(N[x].status, PROTOTYPE)),
                               forall(0, n, lambda x: implies(eq(h.color[x], BLACK), eq(N[x].label, N[0].label))))),
    ]


def fp_outer(v, old, le_):
    sg, h = v.self.subgraph, v.h
    n = length(sg.nodes)
    return fp_common(v, old) + [
        ("phase", disj(conj(eq(h.last, 0), eq(h.p[0], 0), eq(h.color[0], GRAY),
                            forall(0, n, lambda x: implies(ne(x, 0), eq(h.color[x], WHITE)))),
                       conj(eq(h.color[0], BLACK), forall(0, n, lambda x: ne(h.color[x], WHITE))))),
    ]


def fp_inner(v, old, le_):
    sg, h = v.self.subgraph, v.h
    n = length(sg.nodes)
    return fp_common(v, old) + [
        ("p", conj(le(0, v.p), lt(v.p, n), eq(h.color[v.p], BLACK), eq(h.color[0], BLACK))),
        ("scanned", forall(0, v.q, lambda x: implies(ne(x, v.p), ne(h.color[x], WHITE)))),
        ("later", disj(forall(0, n, lambda x: implies(conj(ne(x, v.p), ge(x, v.q)), eq(h.color[x], WHITE))),
                       forall(0, n, lambda x: ne(h.color[x], WHITE)))),
    ]


contract(S + "_find_prototypes", params={"self": "obj:SupervisedOPF"}, props=["C02", "C01", "C15"],
         requires=fp_requires,
         ensures=lambda v, old, result: [
             ("static", node_static_same(v.self.subgraph, old.self.subgraph)),
             ("status_ok", statuses_ok(v.self.subgraph)),
             ("some_prototype", exists(0, length(v.self.subgraph.nodes),
                                       lambda x: eq(v.self.subgraph.nodes[x].status, PROTOTYPE))),
         ],
         modifies=["self.subgraph.nodes.cost", "self.subgraph.nodes.pred", "self.subgraph.nodes.status"],
         loops=[LoopSpec("while", inv=fp_outer), LoopSpec("for", var="q", inv=fp_inner)])


# ------------------------------------------------------------------ fit

def fit_requires(v):
    return [("nonempty", ge(length(v.X_train), 1)), ("same_len", eq(length(v.X_train), length(v.Y_train))),
            ("labels_nonneg", forall(0, length(v.Y_train), lambda i: ge(v.Y_train[i], 0))),
            ("two_classes", exists(0, length(v.Y_train), lambda x, y: ne(v.Y_train[x], v.Y_train[y]))),
            ("metric", metric_hyp())]


def fit_static(v, old):
    m, sg = v.self, v.self.subgraph
    n = length(sg.nodes)
    N = sg.nodes
    return [
        ("n", conj(eq(n, length(v.X_train)), ge(n, 1))),
        ("cfg", eq(m.pre_computed_distance, old.self.pre_computed_distance)),
        ("labels", forall(0, n, lambda x: conj(eq(N[x].label, v.Y_train[x]), ge(N[x].label, 0), ge(N[x].idx, 0)))),
        ("status_ok", statuses_ok(sg)),
        ("some_prototype", exists(0, n, lambda x: eq(N[x].status, PROTOTYPE))),
    ]


def fit_init_inv(v, old, le_):
    m, sg, h = v.self, v.self.subgraph, v.h
    n = length(sg.nodes)
    N = sg.nodes
    i = v.i
    return fit_static(v, old) + [
        ("heap", conj(HP.inv(h), eq(h.size, n), eq(h.policy, "min"), lt(h.last, i))),
        ("done", forall(0, i, lambda x: ite(eq(N[x].status, PROTOTYPE),
                                            conj(eq(h.color[x], GRAY), eq(h.cost[x], 0), eq(N[x].pred, NIL),
                                                 eq(N[x].predicted_label, N[x].label)),
                                            conj(eq(h.color[x], WHITE), eq(h.cost[x], FLOAT_MAX))))),
        ("todo", forall(i, n, lambda x: eq(h.color[x], WHITE))),
        ("ord_empty", eq(length(sg.idx_nodes), 0)),
    ]


def fit_forest(v, old):
    """I0-I4 of DESIGN C01 (outer competition loop)"""
    m, sg, h = v.self, v.self.subgraph, v.h
    n = length(sg.nodes)
    N = sg.nodes
    D, col = h.cost, h.color
    ordl = sg.idx_nodes
    mlen = length(ordl)
    rank = v.g_rank
    return fit_static(v, old) + [
        ("heap", conj(HP.inv(h), eq(h.size, n), eq(h.policy, "min"))),
        ("I0_range", forall(0, n, lambda x: conj(le(0, D[x]), le(D[x], FLOAT_MAX),
                                                 iff(eq(col[x], WHITE), eq(D[x], FLOAT_MAX))))),
        ("I1_monotone", forall(0, n, lambda b, q: implies(conj(eq(col[b], BLACK), ne(col[q], BLACK)),
                                                         le(D[b], D[q])))),
        ("I3_proto", forall(0, n, lambda x: implies(eq(N[x].status, PROTOTYPE),
                                                    conj(eq(D[x], 0), eq(N[x].pred, NIL),
                                                         eq(N[x].predicted_label, N[x].label))))),
        ("I3_pred", forall(0, n, lambda x: implies(conj(ne(N[x].status, PROTOTYPE), ne(col[x], WHITE)),
                                                   conj(le(0, N[x].pred), lt(N[x].pred, n), ne(N[x].pred, x),
                                                        eq(col[N[x].pred], BLACK),
                                                        eq(D[x], vmax(D[N[x].pred], W(m, N[x].pred, x))),
                                                        eq(N[x].predicted_label, N[N[x].pred].predicted_label))))),
        ("I4_final", forall(0, n, lambda b: implies(eq(col[b], BLACK), eq(N[b].cost, D[b])))),
        ("I4_ord", conj(le(0, mlen), eq(length(rank), n),
                        forall(0, mlen, lambda r: conj(le(0, ordl[r]), lt(ordl[r], n), eq(col[ordl[r]], BLACK),
                                                       eq(rank[ordl[r]], r))),
                        forall(0, n, lambda b: implies(eq(col[b], BLACK),
                                                       conj(le(0, rank[b]), lt(rank[b], mlen),
                                                            eq(ordl[rank[b]], b)))))),
        ("I4_sorted", forall(0, mlen, lambda r, s: implies(lt(r, s), le(D[ordl[r]], D[ordl[s]])))),
        ("I4_rank", forall(0, n, lambda b: implies(conj(eq(col[b], BLACK), ne(N[b].status, PROTOTYPE)),
                                                   lt(rank[N[b].pred], rank[b])))),
    ]


def fit_outer_inv(v, old, le_):
    m, sg, h = v.self, v.self.subgraph, v.h
    n = length(sg.nodes)
    D, col = h.cost, h.color
    return fit_forest(v, old) + [
        ("I2_closed", forall(0, n, lambda b, q: implies(conj(eq(col[b], BLACK), ne(b, q)),
                                                       le(D[q], vmax(D[b], W(m, b, q)))))),
    ]


def fit_inner_inv(v, old, le_):
    m, sg, h = v.self, v.self.subgraph, v.h
    n = length(sg.nodes)
    D, col = h.cost, h.color
    p, q = v.p, v.q
    ordl = sg.idx_nodes
    return fit_forest(v, old) + [
        ("p", conj(le(0, p), lt(p, n), eq(col[p], BLACK), ge(length(ordl), 1),
                   eq(ordl[length(ordl) - 1], p))),
        ("I2_closed_others", forall(0, n, lambda b, x: implies(conj(eq(col[b], BLACK), ne(b, x), ne(b, p)),
                                                              le(D[x], vmax(D[b], W(m, b, x)))))),
        ("I2_closed_p", forall(0, q, lambda x: implies(ne(x, p), le(D[x], vmax(D[p], W(m, p, x)))))),
    ]


def fit_ensures(v, old, result):
    m, sg = v.self, v.self.subgraph
    n = length(sg.nodes)
    N = sg.nodes
    ordl = sg.idx_nodes
    return [
        ("n", eq(n, length(v.X_train))),
        ("trained", eq(sg.trained, True)),
        ("labels", forall(0, n, lambda x: eq(N[x].label, v.Y_train[x]))),
        ("a_closure", forall(0, n, lambda p, q: implies(ne(p, q), le(N[q].cost, vmax(N[p].cost, W(m, p, q)))))),
        ("a_prototypes", conj(exists(0, n, lambda x: eq(N[x].status, PROTOTYPE)),
                              forall(0, n, lambda x: implies(eq(N[x].status, PROTOTYPE),
                                                             conj(eq(N[x].cost, 0), eq(N[x].pred, NIL),
                                                                  eq(N[x].predicted_label, N[x].label)))))),
        ("b_links", forall(0, n, lambda x: implies(ne(N[x].status, PROTOTYPE),
                                                   conj(le(0, N[x].pred), lt(N[x].pred, n), ne(N[x].pred, x),
                                                        eq(N[x].cost, vmax(N[N[x].pred].cost, W(m, N[x].pred, x))),
                                                        eq(N[x].predicted_label, N[N[x].pred].predicted_label))))),
        # acyclic: in the conquest order (a permutation, see c_perm) every predecessor comes strictly earlier
        ("b_acyclic", forall(0, n, lambda r, s: implies(conj(ne(N[ordl[r]].status, PROTOTYPE),
                                                            eq(ordl[s], N[ordl[r]].pred)), lt(s, r)))),
        ("c_perm", conj(eq(length(ordl), n),
                        forall(0, n, lambda r: conj(le(0, ordl[r]), lt(ordl[r], n))),
                        forall(0, n, lambda r, s: implies(ne(r, s), ne(ordl[r], ordl[s]))),
                        forall(0, n, lambda x: exists(0, n, lambda r: eq(ordl[r], x))))),
        ("c_sorted", forall(0, n, lambda r, s: implies(lt(r, s), le(N[ordl[r]].cost, N[ordl[s]].cost)))),
        ("costs_range", forall(0, n, lambda x: conj(le(0, N[x].cost), lt(N[x].cost, FLOAT_MAX)))),
    ]


contract(S + "fit",
         params={"self": "obj:SupervisedOPF", "X_train": "list[feat]", "Y_train": "list[int]", "I_train": "optlist[int]"},
         props=["C01", "C03", "C04"],
         requires=fit_requires, ensures=fit_ensures,
         modifies=["self.subgraph"],
         hints=[("after:loop1", lambda v, old: [
             ("no_gray", forall(0, length(v.self.subgraph.nodes), lambda x: ne(v.h.color[x], GRAY))),
             ("all_black", forall(0, length(v.self.subgraph.nodes), lambda x: eq(v.h.color[x], BLACK)))])],
         lemmas=[("after:loop1", "inj_card", lambda v: {"f": v.self.subgraph.idx_nodes, "g": v.g_rank,
                                                       "a": length(v.self.subgraph.idx_nodes),
                                                       "b": length(v.self.subgraph.nodes)}),
                 ("after:loop1", "inj_card", lambda v: {"f": v.g_rank, "g": v.self.subgraph.idx_nodes,
                                                       "a": length(v.self.subgraph.nodes),
                                                       "b": length(v.self.subgraph.idx_nodes)})],
         ghost=[("after:h = Heap(size=self.subgraph.n_nodes)", "g_rank = [0 for _ in range(self.subgraph.n_nodes)]"),
                ("after:self.subgraph.idx_nodes.append(p)", "g_rank[p] = len(self.subgraph.idx_nodes) - 1")],
         loops=[LoopSpec("for", var="i", inv=fit_init_inv),
                LoopSpec("while", inv=fit_outer_inv),
                LoopSpec("for", var="q", inv=fit_inner_inv)])
