"""Contracts for opfython/models/supervised.py: _find_prototypes (C02), fit (C01), predict (C03, C17)."""
from pyvc.contracts import contract, schema, lemma, LoopSpec
from pyvc.logic import (conj, disj, neg, implies, iff, ite, eq, ne, lt, le, gt, ge, between, forall, exists,
                        length, vmax, vmin, MODE, multipat)
from specs.graph import *  # noqa: F401,F403
from specs.graph import W, W_terms, metric_hyp, statuses_ok, node_static_same
from specs import heap as HP

S = "opfython.models.supervised.SupervisedOPF."


# ------------------------------------------------------------------ Subgraph construction (assumed for now)

def built(sg, X, Y, I, k):
    """the first k rows have become nodes"""
    return forall(0, k, lambda i: conj(
        eq(sg.nodes[i].label, 0 if Y is None else Y[i]), eq(sg.nodes[i].features, X[i]),
        ge(sg.nodes[i].idx, 0), eq(sg.nodes[i].idx, ite(I.present, I[i], i)),
        eq(sg.nodes[i].status, STANDARD), eq(sg.nodes[i].pred, NIL),
        eq(sg.nodes[i].relevant, IRRELEVANT), eq(sg.nodes[i].predicted_label, 0),
        eq(sg.nodes[i].cluster_label, 0), eq(sg.nodes[i].cost, 0), eq(sg.nodes[i].density, 0),
        eq(sg.nodes[i].n_plateaus, 0), eq(length(sg.nodes[i].adjacency), 0), eq(sg.nodes[i].root, 0)),
        pats=(lambda i: [getattr(sg.nodes[i], f) for f in ("label", "features", "idx", "status", "pred", "relevant",
                                                           "predicted_label", "cluster_label", "cost", "density",
                                                           "n_plateaus", "root")]) if MODE.kind == "sym" else None)


def rows_ok(X, Y, I):
    out = [("nonempty", ge(length(X), 1))]
    if Y is not None:
        out += [("same_len", eq(length(X), length(Y))),
                ("labels_nonneg", forall(0, length(Y), lambda i: ge(Y[i], 0)))]
    out += [("index_ok", implies(I.present, conj(ge(length(I.value), length(X)),
                                                 forall(0, length(X), lambda i: ge(I[i], 0)))))]
    return out


SGI = "opfython.core.subgraph.Subgraph."

contract(SGI + "_build",
         params={"self": "obj:Subgraph", "X": "list[feat]", "Y": "list[int]", "I": "optlist[int]"},
         props=["C01", "C02", "C03", "C15", "C07", "C10"],
         requires=lambda v: rows_ok(v.X, v.Y, v.I) + [("empty", eq(length(v.self.nodes), 0))],
         ensures=lambda v, old, result: [("n", eq(length(v.self.nodes), length(v.X))),
                                         ("fields", built(v.self, v.X, v.Y, v.I, length(v.X)))],
         modifies=["self.nodes", "self.n_features"],
         loops=[LoopSpec("for", var="(i, (feature, label))", inv=lambda v, old, le_: [
             ("k", conj(eq(length(v.self.nodes), v.loop0_k), le(v.loop0_k, length(v.X)))),
             ("fields", built(v.self, v.X, v.Y, v.I, v.loop0_k))])])

contract(SGI + "__init__",
         params={"self": "obj:Subgraph", "X": "list[feat]", "Y": "list[int]", "I": "optlist[int]", "from_file": "none"},
         props=["C01", "C02", "C03", "C15", "C07", "C10"],
         configs=[{}, {"Y": None}],
         requires=lambda v: rows_ok(v.X, v.Y, v.I),
         ensures=lambda v, old, result: [
             ("n", eq(length(v.self.nodes), length(v.X))),
             ("fields", built(v.self, v.X, v.Y, v.I, length(v.X))),
             ("ord_empty", eq(length(v.self.idx_nodes), 0)),
             ("untrained", eq(v.self.trained, False)),
         ],
         modifies=["self.nodes", "self.idx_nodes", "self.trained", "self.n_features", "self.n_nodes"])


# ------------------------------------------------------------------ _find_prototypes (Prim)

def two_classes(sg):
    n = length(sg.nodes)
    return exists(0, n, lambda x, y: ne(sg.nodes[x].label, sg.nodes[y].label))


def fp_requires(v):
    m, sg = v.self, v.self.subgraph
    n = length(sg.nodes)
    return [("n", ge(n, 1)),
            ("metric", metric_hyp()),
            ("fresh", forall(0, n, lambda x: conj(eq(sg.nodes[x].status, STANDARD), ge(sg.nodes[x].label, 0)))),
            ("two_classes", two_classes(sg))]


def fp_common(v, old, inner=False):
    """facts about the outer state shared by the two loops of _find_prototypes: Prim's certificate (DESIGN §3 C02,
    P1-P4).  Ghost state: g_prank[x] = number of nodes removed before x, g_pinv its inverse, g_m the number removed so
    far, g_wit[x] the bichromatic tree arc (named by its later endpoint) that made x a prototype, g_q[x] / g_r[x] a
    prototype of x's class / of node 0's class for x outside node 0's class."""
    m, sg, o = v.self, v.self.subgraph, old.self.subgraph
    h = v.h
    n = length(sg.nodes)
    N = sg.nodes
    D, col = h.cost, h.color
    rk, rinv, gm, wit, gq, gr = v.g_prank, v.g_pinv, v.g_m, v.g_wit, v.g_q, v.g_r
    notp = (lambda b: ne(b, v.p)) if inner else (lambda b: True)
    return [
        ("heap", conj(HP.inv(h), eq(h.size, n), eq(h.policy, "min"))),
        ("static", conj(node_static_same(sg, o), eq(m.pre_computed_distance, old.self.pre_computed_distance))),
        ("status_ok", statuses_ok(sg)),
        ("cost_range", forall(0, n, lambda x: conj(le(0, D[x]), le(D[x], FLOAT_MAX)))),
        # queued, non-root nodes hang on a BLACK node
        ("pred_black", forall(0, n, lambda x: implies(conj(ne(col[x], WHITE), ne(x, 0)),
                                                      conj(le(0, N[x].pred), lt(N[x].pred, n),
                                                           eq(col[N[x].pred], BLACK))),
                              pats=lambda x: [N[x].pred])),
        ("root", conj(eq(N[0].pred, NIL), ne(col[0], WHITE))),
        ("white_max", forall(0, n, lambda x: implies(eq(col[x], WHITE), eq(D[x], FLOAT_MAX)))),
        # removal order: g_prank / g_pinv are inverse bijections between the BLACK nodes and [0, g_m)
        ("P_rank", conj(ge(gm, 0),
                        forall(0, gm, lambda r: conj(le(0, rinv[r]), lt(rinv[r], n), eq(col[rinv[r]], BLACK),
                                                     eq(rk[rinv[r]], r))),
                        forall(0, n, lambda b: implies(eq(col[b], BLACK),
                                                       conj(le(0, rk[b]), lt(rk[b], gm), eq(rinv[rk[b]], b)))))),
        # P1: the key of a queued node is its lightest arc to the tree, and pred is the other end of that arc
        ("P1_key", forall(0, n, lambda q: implies(conj(eq(col[q], GRAY), ne(q, 0)),
                                                  eq(D[q], W(m, N[q].pred, q))),
                          pats=lambda q: [N[q].pred])),
        ("P1_lightest", forall(0, n, lambda b, q: implies(conj(eq(col[b], BLACK), eq(col[q], GRAY), notp(b)),
                                                         le(D[q], W(m, b, q))),
                               pats=lambda b, q: W_terms(m, b, q))),
        # P2: every tree arc was, when it was added, a lightest arc leaving the set of earlier-removed nodes
        ("P2_tree", forall(0, n, lambda x: implies(conj(eq(col[x], BLACK), ne(x, 0)),
                                                   conj(lt(rk[N[x].pred], rk[x]),
                                                        eq(N[x].cost, W(m, N[x].pred, x)))),
                           pats=lambda x: [N[x].pred])),
        ("P2_cut", forall(0, n, lambda x, b, y: implies(
            conj(eq(col[x], BLACK), ne(x, 0), eq(col[b], BLACK), lt(rk[b], rk[x]),
                 disj(ne(col[y], BLACK), ge(rk[y], rk[x]))),
            le(N[x].cost, W(m, b, y))),
            pats=lambda x, b, y: [multipat(rk[x], t) for t in W_terms(m, b, y)])),
        # P3: prototypes are exactly the endpoints of the bichromatic tree arcs added so far
        ("P3_only", forall(0, n, lambda x: implies(
            eq(N[x].status, PROTOTYPE),
            conj(le(0, wit[x]), lt(wit[x], n), ne(wit[x], 0), eq(col[wit[x]], BLACK),
                 ne(N[wit[x]].label, N[N[wit[x]].pred].label),
                 disj(eq(x, wit[x]), eq(x, N[wit[x]].pred)))),
            pats=lambda x: [wit[x]])),
        ("P3_all", forall(0, n, lambda y: implies(
            conj(eq(col[y], BLACK), ne(y, 0), ne(N[y].label, N[N[y].pred].label)),
            conj(eq(N[y].status, PROTOTYPE), eq(N[N[y].pred].status, PROTOTYPE))),
            pats=lambda y: [N[y].pred])),
        # P4: every class met so far has a prototype, and once a second class is met so has node 0's class
        ("P4_own", forall(0, n, lambda x: implies(
            conj(eq(col[x], BLACK), ne(N[x].label, N[0].label)),
            conj(le(0, gq[x]), lt(gq[x], n), eq(N[gq[x]].status, PROTOTYPE), eq(N[gq[x]].label, N[x].label))),
            pats=lambda x: [col[x], gq[x]])),
        ("P4_root", forall(0, n, lambda x: implies(
            conj(eq(col[x], BLACK), ne(N[x].label, N[0].label)),
            conj(le(0, gr[x]), lt(gr[x], n), eq(N[gr[x]].status, PROTOTYPE), eq(N[gr[x]].label, N[0].label))),
            pats=lambda x: [col[x], gr[x]])),
    ]


def fp_outer(v, old, le_):
    sg, h = v.self.subgraph, v.h
    n = length(sg.nodes)
    return fp_common(v, old) + [
        ("phase", disj(conj(eq(h.last, 0), eq(h.color[0], GRAY), eq(v.g_m, 0),
                            forall(0, n, lambda x: implies(ne(x, 0), eq(h.color[x], WHITE)))),
                       conj(eq(h.color[0], BLACK), forall(0, n, lambda x: ne(h.color[x], WHITE))))),
    ]


def fp_inner(v, old, le_):
    m, sg, h = v.self, v.self.subgraph, v.h
    n = length(sg.nodes)
    return fp_common(v, old, inner=True) + [
        ("p", conj(le(0, v.p), lt(v.p, n), eq(h.color[v.p], BLACK), eq(h.color[0], BLACK))),
        ("scanned", forall(0, v.q, lambda x: implies(ne(x, v.p), ne(h.color[x], WHITE)))),
        ("later", disj(conj(forall(0, n, lambda x: implies(conj(ne(x, v.p), ge(x, v.q)), eq(h.color[x], WHITE))),
                            forall(0, n, lambda x: implies(ne(x, v.p), ne(h.color[x], BLACK)))),
                       forall(0, n, lambda x: ne(h.color[x], WHITE)))),
        ("P1_lightest_p", forall(0, v.q, lambda x: implies(eq(h.color[x], GRAY), le(h.cost[x], W(m, v.p, x))))),
    ]


def fp_ensures(v, old, result):
    m, sg = v.self, v.self.subgraph
    n = length(sg.nodes)
    N = sg.nodes
    out = [
        ("static", node_static_same(sg, old.self.subgraph)),
        ("status_ok", statuses_ok(sg)),
        ("some_prototype", exists(0, n, lambda x: eq(N[x].status, PROTOTYPE))),
        # C02: at least one prototype of every class ...
        ("every_class_has_prototype", forall(0, n, lambda x: exists(0, n, lambda z: conj(
            eq(N[z].status, PROTOTYPE), eq(N[z].label, N[x].label))))),
    ]
    if MODE.kind != "sym":
        return out
    rk = v.ghost("g_prank", "list[int]")
    wit = v.ghost("g_wit", "list[int]")
    return out + [
        # ... the pred map is a spanning tree rooted at node 0 (ranks strictly decrease towards the root, so no
        # cycle), node costs are the tree-arc weights ...
        ("mst_root", eq(N[0].pred, NIL)),
        ("mst_rank_range", forall(0, n, lambda x: conj(le(0, rk[x]), lt(rk[x], n)))),
        ("mst_rank_injective", forall(0, n, lambda x, y: implies(ne(x, y), ne(rk[x], rk[y])))),
        ("mst_tree", forall(0, n, lambda x: implies(ne(x, 0), conj(le(0, N[x].pred), lt(N[x].pred, n),
                                                                   lt(rk[N[x].pred], rk[x]),
                                                                   eq(N[x].cost, W(m, N[x].pred, x)))))),
        # ... every tree arc is a lightest arc across the cut (nodes added before x | the rest): the cut-property
        # certificate of a minimum spanning tree of the complete graph ...
        ("mst_cut_certificate", forall(0, n, lambda x, b, y: implies(
            conj(ne(x, 0), lt(rk[b], rk[x]), ge(rk[y], rk[x])),
            le(W(m, N[x].pred, x), W(m, b, y))))),
        # ... and the prototypes are exactly the endpoints of the tree arcs joining different labels
        ("prototypes_only_on_class_boundaries", forall(0, n, lambda x: implies(
            eq(N[x].status, PROTOTYPE),
            conj(le(0, wit[x]), lt(wit[x], n), ne(wit[x], 0),
                 ne(N[wit[x]].label, N[N[wit[x]].pred].label),
                 disj(eq(x, wit[x]), eq(x, N[wit[x]].pred)))))),
        ("boundary_endpoints_are_prototypes", forall(0, n, lambda y: implies(
            conj(ne(y, 0), ne(N[y].label, N[N[y].pred].label)),
            conj(eq(N[y].status, PROTOTYPE), eq(N[N[y].pred].status, PROTOTYPE))))),
    ]


def fp_exit_hints(v, old):
    sg, h = v.self.subgraph, v.h
    n = length(sg.nodes)
    N = sg.nodes
    return [
        ("no_gray", forall(0, n, lambda x: ne(h.color[x], GRAY))),
        ("all_black", forall(0, n, lambda x: eq(h.color[x], BLACK))),
        ("removed_all", le(v.g_m, n)),
        ("rank_total", forall(0, n, lambda x: conj(le(0, v.g_prank[x]), lt(v.g_prank[x], v.g_m),
                                                   eq(v.g_pinv[v.g_prank[x]], x)))),
        ("second_class", exists(0, n, lambda x: conj(eq(h.color[x], BLACK), ne(N[x].label, N[0].label)))),
        ("own_class_has_prototype", forall(0, n, lambda x: implies(
            ne(N[x].label, N[0].label),
            conj(le(0, v.g_q[x]), lt(v.g_q[x], n), eq(N[v.g_q[x]].status, PROTOTYPE),
                 eq(N[v.g_q[x]].label, N[x].label))), pats=lambda x: [N[x].label])),
        ("root_class_has_prototype", exists(0, n, lambda z: conj(eq(N[z].status, PROTOTYPE),
                                                                 eq(N[z].label, N[0].label)))),
    ]


def fp_removed_hints(v, old):
    """the node just removed hangs on the lightest arc between the removed and the not-yet-removed nodes"""
    m, sg, h = v.self, v.self.subgraph, v.h
    n = length(sg.nodes)
    N, D, col, p = sg.nodes, h.cost, h.color, v.p
    return [
        ("p_best_key", forall(0, n, lambda y: implies(ne(col[y], BLACK), le(D[p], D[y])))),
        ("p_lightest", forall(0, n, lambda b, y: implies(conj(eq(col[b], BLACK), ne(b, p), disj(eq(y, p), ne(col[y], BLACK))),
                                                        le(D[p], W(m, b, y))),
                               pats=lambda b, y: W_terms(m, b, y))),
        ("p_key", implies(ne(p, 0), conj(eq(D[p], W(m, N[p].pred, p)), lt(v.g_prank[N[p].pred], v.g_prank[p])))),
    ]


_GN = "[0 for _ in range(self.subgraph.n_nodes)]"

contract(S + "_find_prototypes", params={"self": "obj:SupervisedOPF"}, props=["C02", "C01", "C15"],
         requires=fp_requires, ensures=fp_ensures,
         certificate=["mst_rank_range", "mst_rank_injective", "mst_tree", "mst_cut_certificate",
                      "prototypes_only_on_class_boundaries", "boundary_endpoints_are_prototypes"],
         modifies=["self.subgraph.nodes.cost", "self.subgraph.nodes.pred", "self.subgraph.nodes.status"],
         ghost=[("after:h.insert(0)", "g_prank = %s\ng_pinv = %s\ng_wit = %s\ng_q = %s\ng_r = %s\ng_m = 0"
                 % (_GN, _GN, _GN, _GN, _GN)),
                ("after:p = h.remove()", "g_prank[p] = g_m\ng_pinv[g_m] = p\ng_m = g_m + 1"),
                ("after:pred = self.subgraph.nodes[p].pred", """
if pred != c.NIL:
    g_q[p] = p if self.subgraph.nodes[p].label != self.subgraph.nodes[pred].label else g_q[pred]
    g_r[p] = pred if self.subgraph.nodes[pred].label == self.subgraph.nodes[0].label else g_r[pred]
    if self.subgraph.nodes[p].label != self.subgraph.nodes[pred].label:
        if self.subgraph.nodes[p].status != c.PROTOTYPE:
            g_wit[p] = p
        if self.subgraph.nodes[pred].status != c.PROTOTYPE:
            g_wit[pred] = p
""")],
         lemmas=[("after:loop0", "inj_card", lambda v: {"f": v.g_pinv, "g": v.g_prank, "a": v.g_m,
                                                       "b": length(v.self.subgraph.nodes)})],
         late_hints=[("after:loop0", fp_exit_hints),
                     ("after:self.subgraph.nodes[p].cost = h.cost[p]", fp_removed_hints)],
         loops=[LoopSpec("while", inv=fp_outer), LoopSpec("for", var="q", inv=fp_inner)])


# ------------------------------------------------------------------ fit

def fit_requires(v):
    return [("nonempty", ge(length(v.X_train), 1)), ("same_len", eq(length(v.X_train), length(v.Y_train))),
            ("labels_nonneg", forall(0, length(v.Y_train), lambda i: ge(v.Y_train[i], 0))),
            ("two_classes", exists(0, length(v.Y_train), lambda x, y: ne(v.Y_train[x], v.Y_train[y]))),
            ("index_ok", implies(v.I_train.present,
                                 conj(ge(length(v.I_train.value), length(v.X_train)),
                                      forall(0, length(v.X_train), lambda i: ge(v.I_train[i], 0))))),
            ("metric", metric_hyp())]


def fit_static(v, old, semi=False):
    m, sg = v.self, v.self.subgraph
    n = length(sg.nodes)
    N = sg.nodes
    nl = length(v.X_train)
    if semi:
        head = [
            ("n", conj(eq(n, nl + length(v.X_unlabeled)), ge(nl, 1))),
            ("cfg", eq(m.pre_computed_distance, old.self.pre_computed_distance)),
            # labels of unlabeled / conquered samples are overwritten by the assigned label; prototypes (always
            # labelled samples) keep their true label
            ("labels", conj(forall(0, n, lambda x: conj(ge(N[x].label, 0), ge(N[x].idx, 0))),
                            forall(0, n, lambda x: implies(eq(N[x].status, PROTOTYPE),
                                                           conj(lt(x, nl), eq(N[x].label, v.Y_train[x]))))),
             # (the relabelled node q is never a prototype: a prototype's cost is 0 and offers are non-negative)
             ["labels", "plabel_nonneg", "I3_proto", "I0_range", "req.metric", "p", "n"]),
        ]
    else:
        head = [
            ("n", conj(eq(n, nl), ge(n, 1))),
            ("cfg", eq(m.pre_computed_distance, old.self.pre_computed_distance)),
            ("labels", forall(0, n, lambda x: conj(eq(N[x].label, v.Y_train[x]), ge(N[x].label, 0),
                                                   ge(N[x].idx, 0)))),
        ]
    return head + [
        ("status_ok", statuses_ok(sg)),
        ("some_prototype", exists(0, n, lambda x: eq(N[x].status, PROTOTYPE))),
        ("plabel_nonneg", forall(0, n, lambda x: ge(N[x].predicted_label, 0))),
        ("fresh_relevance", forall(0, n, lambda x: eq(N[x].relevant, IRRELEVANT))),
        ("features", forall(0, n, lambda x: eq(N[x].features,
                                               ite(lt(x, nl), v.X_train[x], v.X_unlabeled[x - nl]) if semi
                                               else v.X_train[x]))),
    ]


def fit_init_inv(v, old, le_, semi=False):
    m, sg, h = v.self, v.self.subgraph, v.h
    n = length(sg.nodes)
    N = sg.nodes
    i = v.i
    return fit_static(v, old, semi) + [
        ("heap", conj(HP.inv(h), eq(h.size, n), eq(h.policy, "min"), lt(h.last, i))),
        ("done", forall(0, i, lambda x: ite(eq(N[x].status, PROTOTYPE),
                                            conj(eq(h.color[x], GRAY), eq(h.cost[x], 0), eq(N[x].pred, NIL),
                                                 eq(N[x].predicted_label, N[x].label)),
                                            conj(eq(h.color[x], WHITE), eq(h.cost[x], FLOAT_MAX))))),
        ("todo", forall(i, n, lambda x: eq(h.color[x], WHITE))),
        ("ord_empty", eq(length(sg.idx_nodes), 0)),
    ]


def fit_forest(v, old, semi=False):
    """I0-I4 of DESIGN C01 (outer competition loop)"""
    m, sg, h = v.self, v.self.subgraph, v.h
    n = length(sg.nodes)
    N = sg.nodes
    D, col = h.cost, h.color
    ordl = sg.idx_nodes
    mlen = length(ordl)
    rank = v.g_rank
    return fit_static(v, old, semi) + [
        ("heap", conj(HP.inv(h), eq(h.size, n), eq(h.policy, "min"))),
        ("I0_range", forall(0, n, lambda x: conj(le(0, D[x]), le(D[x], FLOAT_MAX),
                                                 iff(eq(col[x], WHITE), eq(D[x], FLOAT_MAX))))),
        ("I1_monotone", forall(0, n, lambda b, q: implies(conj(eq(col[b], BLACK), ne(col[q], BLACK)),
                                                         le(D[b], D[q])))),
        ("I3_proto", forall(0, n, lambda x: implies(eq(N[x].status, PROTOTYPE),
                                                    conj(eq(D[x], 0), eq(N[x].pred, NIL),
                                                         eq(N[x].predicted_label, N[x].label))))),
        ("I3_pred", forall(0, n, lambda x: implies(conj(ne(N[x].status, PROTOTYPE), ne(col[x], WHITE)),
                                                   conj(le(0, N[x].pred), lt(N[x].pred, n), ne(N[x].pred, x),
                                                        eq(col[N[x].pred], BLACK),
                                                        eq(D[x], vmax(D[N[x].pred], W(m, N[x].pred, x))),
                                                        eq(N[x].predicted_label, N[N[x].pred].predicted_label)))),
         ["I3_pred", "p", "n", "call.Heap.update.cost", "call.Heap.update.color", "static", "labels"]),
        ("I4_final", forall(0, n, lambda b: implies(eq(col[b], BLACK), eq(N[b].cost, D[b])))),
        ("I4_ord", conj(le(0, mlen), eq(length(rank), n),
                        forall(0, mlen, lambda r: conj(le(0, ordl[r]), lt(ordl[r], n), eq(col[ordl[r]], BLACK),
                                                       eq(rank[ordl[r]], r))),
                        forall(0, n, lambda b: implies(eq(col[b], BLACK),
                                                       conj(le(0, rank[b]), lt(rank[b], mlen),
                                                            eq(ordl[rank[b]], b)))))),
        ("I4_sorted", forall(0, mlen, lambda r, s: implies(lt(r, s), le(D[ordl[r]], D[ordl[s]])))),
        ("I4_rank", forall(0, n, lambda b: implies(conj(eq(col[b], BLACK), ne(N[b].status, PROTOTYPE)),
                                                   lt(rank[N[b].pred], rank[b])))),
    ]


def fit_outer_inv(v, old, le_, semi=False):
    m, sg, h = v.self, v.self.subgraph, v.h
    n = length(sg.nodes)
    D, col = h.cost, h.color
    return fit_forest(v, old, semi) + [
        ("I2_closed", forall(0, n, lambda b, q: implies(conj(eq(col[b], BLACK), ne(b, q)),
                                                       le(D[q], vmax(D[b], W(m, b, q)))),
                             pats=lambda b, q: W_terms(m, b, q) + [multipat(sg.nodes[b].status, D[q])]),
         # preserved by an iteration: the inner loop's exit invariants say exactly this, split by b = p / b != p
         ["I2_closed_others", "I2_closed_p", "p", "n"]),
    ]


def fit_inner_inv(v, old, le_, semi=False):
    m, sg, h = v.self, v.self.subgraph, v.h
    n = length(sg.nodes)
    D, col = h.cost, h.color
    p, q = v.p, v.q
    ordl = sg.idx_nodes
    return fit_forest(v, old, semi) + [
        ("p", conj(le(0, p), lt(p, n), eq(col[p], BLACK), ge(length(ordl), 1),
                   eq(ordl[length(ordl) - 1], p))),
        ("I2_closed_others", forall(0, n, lambda b, x: implies(conj(eq(col[b], BLACK), ne(b, x), ne(b, p)),
                                                              le(D[x], vmax(D[b], W(m, b, x)))),
                                    pats=lambda b, x: W_terms(m, b, x))),
        ("I2_closed_p", forall(0, q, lambda x: implies(ne(x, p), le(D[x], vmax(D[p], W(m, p, x)))))),
    ]


def fit_ensures(v, old, result, semi=False):
    m, sg = v.self, v.self.subgraph
    n = length(sg.nodes)
    N = sg.nodes
    ordl = sg.idx_nodes
    nl = length(v.X_train)
    if semi:
        head = [("n", eq(n, nl + length(v.X_unlabeled))),
                ("prototypes_labelled", forall(0, n, lambda x: implies(eq(N[x].status, PROTOTYPE),
                                                                       conj(lt(x, nl), eq(N[x].label, v.Y_train[x]))))),
                ("unlabeled_features", forall(nl, n, lambda x: eq(N[x].features, v.X_unlabeled[x - nl])))]
    else:
        head = [("n", eq(n, nl)), ("labels", forall(0, n, lambda x: eq(N[x].label, v.Y_train[x])))]
    return head + [
        ("trained", eq(sg.trained, True)),
        ("a_closure", forall(0, n, lambda p, q: implies(ne(p, q), le(N[q].cost, vmax(N[p].cost, W(m, p, q)))),
                             pats=lambda p, q: W_terms(m, p, q))),
        ("a_prototypes", conj(exists(0, n, lambda x: eq(N[x].status, PROTOTYPE)),
                              forall(0, n, lambda x: implies(eq(N[x].status, PROTOTYPE),
                                                             conj(eq(N[x].cost, 0), eq(N[x].pred, NIL),
                                                                  eq(N[x].predicted_label, N[x].label)))))),
        ("b_links", forall(0, n, lambda x: implies(ne(N[x].status, PROTOTYPE),
                                                   conj(le(0, N[x].pred), lt(N[x].pred, n), ne(N[x].pred, x),
                                                        eq(N[x].cost, vmax(N[N[x].pred].cost, W(m, N[x].pred, x))),
                                                        eq(N[x].predicted_label, N[N[x].pred].predicted_label))))),
        # acyclic: in the conquest order (a permutation, see c_perm) every predecessor comes strictly earlier
        ("b_acyclic", forall(0, n, lambda r, s: implies(conj(ne(N[ordl[r]].status, PROTOTYPE),
                                                            eq(ordl[s], N[ordl[r]].pred)), lt(s, r)))),
        ("c_perm", conj(eq(length(ordl), n),
                        forall(0, n, lambda r: conj(le(0, ordl[r]), lt(ordl[r], n))),
                        forall(0, n, lambda r, s: implies(ne(r, s), ne(ordl[r], ordl[s]))),
                        # (the redundant cost equation only provides a trigger term for x)
                        forall(0, n, lambda x: exists(0, n, lambda r: conj(eq(ordl[r], x),
                                                                           eq(N[ordl[r]].cost, N[x].cost)))))),
        ("c_sorted", forall(0, n, lambda r, s: implies(lt(r, s), le(N[ordl[r]].cost, N[ordl[s]].cost)))),
        ("costs_range", forall(0, n, lambda x: conj(le(0, N[x].cost), lt(N[x].cost, FLOAT_MAX)))),
        ("plabel_nonneg", forall(0, n, lambda x: ge(N[x].predicted_label, 0))),
        ("fresh_relevance", forall(0, n, lambda x: eq(N[x].relevant, IRRELEVANT))),
    ] + ([("acyclic_rank", acyclic_rank(sg, v.ghost("g_rank", "list[int]")))] if MODE.kind == "sym" else [])


def fit_exit_hints(v, old):
    """after the competition loop: the queue is empty, so every node was conquered (colour BLACK), and the conquest
    order is a bijection.  `finite` is proved from the clauses it needs only (a focused hint)."""
    sg, h = v.self.subgraph, v.h
    n = length(sg.nodes)
    return [
        ("no_gray", forall(0, n, lambda x: ne(h.color[x], GRAY))),
        ("proto_black", forall(0, n, lambda x: implies(eq(sg.nodes[x].status, PROTOTYPE), eq(h.color[x], BLACK)))),
        ("finite", forall(0, n, lambda x: lt(h.cost[x], FLOAT_MAX), pats=lambda x: [h.color[x], h.cost[x]]),
         ["req.metric", "some_prototype", "proto_black", "I3_proto", "I2_closed", "n"]),
        ("all_black", forall(0, n, lambda x: eq(h.color[x], BLACK))),
        ("rank_inverse", forall(0, n, lambda x: conj(le(0, v.g_rank[x]), lt(v.g_rank[x], length(sg.idx_nodes)),
                                                     eq(sg.idx_nodes[v.g_rank[x]], x)),
                                pats=lambda x: [v.g_rank[x], sg.nodes[x].cost]))]


contract(S + "fit",
         params={"self": "obj:SupervisedOPF", "X_train": "list[feat]", "Y_train": "list[int]", "I_train": "optlist[int]"},
         props=["C01", "C03", "C04"],
         requires=fit_requires, ensures=fit_ensures,
         modifies=["self.subgraph"],
         hints=[("after:loop1", fit_exit_hints)],
         lemmas=[("before:h.cost[i] = 0", "cost_write", lambda v: {"h": v.h, "x": v.i}),
                 ("before:h.cost[i] = c.FLOAT_MAX", "cost_write", lambda v: {"h": v.h, "x": v.i}),
                 ("after:loop1", "inj_card", lambda v: {"f": v.self.subgraph.idx_nodes, "g": v.g_rank,
                                                       "a": length(v.self.subgraph.idx_nodes),
                                                       "b": length(v.self.subgraph.nodes)}),
                 ("after:loop1", "inj_card", lambda v: {"f": v.g_rank, "g": v.self.subgraph.idx_nodes,
                                                       "a": length(v.self.subgraph.nodes),
                                                       "b": length(v.self.subgraph.idx_nodes)})],
         ghost=[("after:h = Heap(size=self.subgraph.n_nodes)", "g_rank = [0 for _ in range(self.subgraph.n_nodes)]"),
                ("after:self.subgraph.idx_nodes.append(p)", "g_rank[p] = len(self.subgraph.idx_nodes) - 1")],
         loops=[LoopSpec("for", var="i", inv=fit_init_inv),
                LoopSpec("while", inv=fit_outer_inv),
                LoopSpec("for", var="q", inv=fit_inner_inv)])


# ------------------------------------------------------------------ mark_nodes / predict

def preds_valid(sg):
    n = length(sg.nodes)
    return forall(0, n, lambda x: conj(le(NIL, sg.nodes[x].pred), lt(sg.nodes[x].pred, n)))


def acyclic_rank(sg, rk):
    """the predecessor map is well-founded: a rank strictly decreases along every predecessor link"""
    n = length(sg.nodes)
    return forall(0, n, lambda x: conj(ge(rk[x], 0), implies(ne(sg.nodes[x].pred, NIL), lt(rk[sg.nodes[x].pred], rk[x]))))


def mn_inv(v, old, le_):
    sg, o = v.self, old.self
    n = length(sg.nodes)
    N = sg.nodes
    rk = v.ghost("g_rank", "list[int]")
    path, ln, on, at = v.g_path, v.g_len, v.g_on, v.g_at
    return [
        ("i", conj(le(0, v.i), lt(v.i, n))), ("preds", preds_valid(sg)), ("rank", acyclic_rank(sg, rk)),
        ("static", forall(0, n, lambda x: eq(N[x].pred, o.nodes[x].pred))),
        ("path", conj(ge(ln, 0),
                      implies(eq(ln, 0), eq(v.i, old.i)),
                      implies(gt(ln, 0), conj(eq(path[0], old.i), eq(v.i, N[path[ln - 1]].pred))),
                      forall(0, ln, lambda t: conj(le(0, path[t]), lt(path[t], n), ne(N[path[t]].pred, NIL),
                                                   eq(on[path[t]], 1), eq(at[path[t]], t))),
                      forall(0, ln - 1, lambda t: eq(N[path[t]].pred, path[t + 1])),
                      # ranks strictly decrease along the path, so the current node has not been visited before
                      forall(0, ln, lambda t: lt(rk[v.i], rk[path[t]])))),
        ("on", forall(0, n, lambda x: disj(eq(on[x], 0), conj(eq(on[x], 1), le(0, at[x]), lt(at[x], ln),
                                                              eq(path[at[x]], x))))),
        ("flags", forall(0, n, lambda x: eq(N[x].relevant, ite(eq(on[x], 1), RELEVANT, o.nodes[x].relevant)))),
    ]


def mn_ensures(v, old, result):
    sg, o = v.self, old.self
    n = length(sg.nodes)
    N = sg.nodes
    if MODE.kind != "sym":
        return []
    path, ln = v.ghost("g_path", "list[int]"), v.ghost("g_len", "int")
    on, at = v.ghost("g_on", "list[int]"), v.ghost("g_at", "list[int]")
    return [
        # the chain from i up to its root: path[0] = i, path[t+1] = pred(path[t]), the last one has no predecessor
        ("chain", conj(ge(ln, 1), eq(path[0], old.i), eq(N[path[ln - 1]].pred, NIL),
                       forall(0, ln, lambda t: conj(le(0, path[t]), lt(path[t], n))),
                       forall(0, ln - 1, lambda t: eq(N[path[t]].pred, path[t + 1])))),
        # exactly the samples of the chain are newly flagged, nothing else changes
        ("flags", forall(0, n, lambda x: eq(N[x].relevant, ite(eq(on[x], 1), RELEVANT, o.nodes[x].relevant)))),
        ("on_chain_iff", conj(forall(0, ln, lambda t: eq(on[path[t]], 1)),
                              forall(0, n, lambda x: disj(eq(on[x], 0), conj(eq(on[x], 1), le(0, at[x]), lt(at[x], ln),
                                                                             eq(path[at[x]], x)))))),
    ]


contract("opfython.core.subgraph.Subgraph.mark_nodes", params={"self": "obj:Subgraph", "i": "int"},
         props=["C03", "C17", "C09"],
         requires=lambda v: [("i", conj(le(0, v.i), lt(v.i, length(v.self.nodes)))), ("preds", preds_valid(v.self)),
                             ("acyclic", acyclic_rank(v.self, v.ghost("g_rank", "list[int]")))],
         ensures=mn_ensures,
         modifies=["self.nodes.relevant"],
         ghost=[("entry", "g_len = 0\ng_path = [0 for _ in range(self.n_nodes)]\n"
                          "g_on = [0 for _ in range(self.n_nodes)]\ng_at = [0 for _ in range(self.n_nodes)]"),
                ("after:self.nodes[i].relevant = c.RELEVANT",
                 "g_path[g_len] = i\ng_on[i] = 1\ng_at[i] = g_len\ng_len = g_len + 1")],
         loops=[LoopSpec("while", inv=mn_inv, decreases=lambda v: v.ghost("g_rank", "list[int]")[v.i])])


def WT(m, t, ps, i):
    """arc weight between training node t and query node i, exactly as predict reads it"""
    sg = m.subgraph
    if isinstance(m.pre_computed_distance, bool):
        if m.pre_computed_distance:
            return m.pre_distances[sg.nodes[t].idx][ps.nodes[i].idx]
        return m.distance_fn(sg.nodes[t].features, ps.nodes[i].features)
    return ite(m.pre_computed_distance,
               m.pre_distances[sg.nodes[t].idx][ps.nodes[i].idx],
               m.distance_fn(sg.nodes[t].features, ps.nodes[i].features))


def fitted(m):
    """what predict needs from a fitted model = part of fit's postcondition"""
    sg = m.subgraph
    n = length(sg.nodes)
    N, ordl = sg.nodes, sg.idx_nodes
    return conj(
        eq(sg.trained, True), ge(n, 1),
        eq(length(ordl), n),
        forall(0, n, lambda r: conj(le(0, ordl[r]), lt(ordl[r], n))),
        forall(0, n, lambda x: exists(0, n, lambda r: eq(ordl[r], x)),
               pats=(lambda x: [N[x].cost]) if MODE.kind == "sym" else None),
        forall(0, n, lambda r, s: implies(lt(r, s), le(N[ordl[r]].cost, N[ordl[s]].cost))),
        forall(0, n, lambda x: ge(N[x].predicted_label, 0)),
        preds_valid(sg))


def fitted_acyclic(v):
    return acyclic_rank(v.self.subgraph, v.ghost("g_rank", "list[int]"))


def predict_requires(v):
    # no symmetry here: the statement fixes the argument order d(t, x) and quantifies over every metric
    return [("fitted", fitted(v.self)), ("acyclic", fitted_acyclic(v)),
            ("metric", metric_hyp(symmetric=False)), ("nonempty", ge(length(v.X_val), 1)),
            ("index_ok", implies(v.I_val.present,
                                 conj(ge(length(v.I_val.value), length(v.X_val)),
                                      forall(0, length(v.X_val), lambda i: ge(v.I_val[i], 0)))))]


def optimal_for(m, ps, i, t):
    """training node t minimises max(cost, distance to query i) over ALL training nodes"""
    sg = m.subgraph
    n = length(sg.nodes)
    N = sg.nodes
    return conj(le(0, t), lt(t, n),
                forall(0, n, lambda u: le(vmax(N[t].cost, WT(m, t, ps, i)), vmax(N[u].cost, WT(m, u, ps, i)))))


def predict_frame(v, old):
    """predict changes nothing of the model but the relevance flags"""
    m, sg, o = v.self, v.self.subgraph, old.self.subgraph
    return []


def valq(m, ps, t, a):
    """what training node t offers query a: max(cost(t), weight(t, a))"""
    return vmax(m.subgraph.nodes[t].cost, WT(m, t, ps, a))


def first_minimiser(m, ps, a, t, r):
    """t sits at position r of the conquest order, minimises the offer over ALL training nodes, and every node at an
    earlier position offers strictly more: the FIRST minimiser in conquest order - a function of (model, query)"""
    sg = m.subgraph
    n = length(sg.nodes)
    return conj(le(0, r), lt(r, n), eq(sg.idx_nodes[r], t), optimal_for(m, ps, a, t),
                forall(0, r, lambda s_: gt(valq(m, ps, sg.idx_nodes[s_], a), valq(m, ps, t, a))))


def predict_outer(v, old, le_):
    m, sg, ps = v.self, v.self.subgraph, v.pred_subgraph
    npred = length(ps.nodes)
    return [
        ("fitted", fitted(m)), ("acyclic", fitted_acyclic(v)),
        ("npred", conj(eq(npred, length(v.X_val)), eq(length(v.g_win), npred))),
        ("done", forall(0, v.i, lambda a: conj(optimal_for(m, ps, a, v.g_win[a]),
                                               eq(ps.nodes[a].predicted_label,
                                                  sg.nodes[v.g_win[a]].predicted_label)))),
        ("done_first", forall(0, v.i, lambda a: first_minimiser(m, ps, a, v.g_win[a], v.g_winpos[a]))),
        ("query_static", forall(0, npred, lambda a: conj(eq(ps.nodes[a].features, v.X_val[a]),
                                                        ge(ps.nodes[a].idx, 0)))),
    ]


def predict_inner(v, old, le_):
    m, sg, ps = v.self, v.self.subgraph, v.pred_subgraph
    n = length(sg.nodes)
    N, ordl = sg.nodes, sg.idx_nodes
    i, j, t = v.i, v.j, v.g_t
    return predict_outer(v, old, le_) + [
        ("i", conj(le(0, i), lt(i, length(ps.nodes)))),
        ("j", conj(le(0, j), le(j, n - 1))),
        ("witness", conj(le(0, t), lt(t, n), eq(v.min_cost, vmax(N[t].cost, WT(m, t, ps, i))),
                         eq(v.current_label, N[t].predicted_label))),
        ("prefix_min", forall(0, j + 1, lambda r: le(v.min_cost, vmax(N[ordl[r]].cost, WT(m, ordl[r], ps, i))))),
        ("conqueror", conj(le(0, v.conqueror), lt(v.conqueror, n), eq(v.conqueror, t))),
        # the tracked sample is the first one of the scanned prefix that attains the minimum (updates are strict)
        ("first", conj(le(0, v.g_tpos), le(v.g_tpos, j), eq(ordl[v.g_tpos], t),
                       forall(0, v.g_tpos, lambda r: gt(valq(m, ps, ordl[r], i), v.min_cost)))),
    ]


def predict_ensures(v, old, result):
    m, sg = v.self, v.self.subgraph
    n = length(sg.nodes)
    N = sg.nodes
    if MODE.kind == "sym":
        ps = v.pred_subgraph
    else:
        import types
        ps = types.SimpleNamespace(nodes=[types.SimpleNamespace(
            features=v.X_val[a], idx=(int(v.I_val[a]) if v.I_val is not None else a)) for a in range(len(v.X_val))])
    return [
        ("len", eq(length(result), length(v.X_val))),
        ("argmin", forall(0, length(v.X_val),
                          lambda a: exists(0, n, lambda t: conj(eq(result[a], N[t].predicted_label),
                                                                optimal_for(m, ps, a, t))))),
        ("query_is_input", forall(0, length(v.X_val), lambda a: eq(ps.nodes[a].features, v.X_val[a]))),
    ] + ([] if MODE.kind != "sym" else [
        # C09 (within one call): the answer is the label of the FIRST minimiser in conquest order, hence a function of
        # the model and the sample alone - two queries that present the same sample get the same label, wherever they
        # stand in the batch
        ("first_minimiser", forall(0, length(v.X_val), lambda a: conj(
            first_minimiser(m, ps, a, v.ghost("g_win", "list[int]")[a], v.ghost("g_winpos", "list[int]")[a]),
            eq(result[a], N[v.ghost("g_win", "list[int]")[a]].predicted_label)))),
        ("position_independent", forall(0, length(v.X_val), lambda a, b: implies(
            same_sample(m, ps, a, b), eq(result[a], result[b])))),
    ])


def same_sample(m, ps, a, b):
    """queries a and b present the same sample to the model: equal feature vectors when the metric is evaluated,
    equal dataset indices when distances are looked up"""
    pre = m.pre_computed_distance
    if isinstance(pre, bool):
        return eq(ps.nodes[a].idx, ps.nodes[b].idx) if pre else eq(ps.nodes[a].features, ps.nodes[b].features)
    return conj(implies(pre, eq(ps.nodes[a].idx, ps.nodes[b].idx)),
                implies(neg(pre), eq(ps.nodes[a].features, ps.nodes[b].features)))


contract(S + "predict",
         params={"self": "obj:SupervisedOPF", "X_val": "list[feat]", "I_val": "optlist[int]", "return": "list[int]"},
         props=["C03", "C17", "C09"],
         requires=predict_requires, ensures=predict_ensures,
         modifies=["self.subgraph.nodes.relevant"],
         ghost=[("after:pred_subgraph = Subgraph(X_val, I=I_val)",
                 "g_win = [0 for _ in range(pred_subgraph.n_nodes)]\ng_winpos = [0 for _ in range(pred_subgraph.n_nodes)]"),
                ("after:current_label = self.subgraph.nodes[k].predicted_label", "g_t = k\ng_tpos = j"),
                ("after:conqueror = l", "g_t = l\ng_tpos = j + 1"),
                ("after:pred_subgraph.nodes[i].predicted_label = current_label", "g_win[i] = g_t\ng_winpos[i] = g_tpos")],
         loops=[LoopSpec("for", var="i", inv=predict_outer), LoopSpec("while", inv=predict_inner)])
