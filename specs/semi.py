"""Contract for opfython/models/semi_supervised.py: SemiSupervisedOPF.fit (C15)."""
from pyvc.contracts import contract, LoopSpec
from pyvc.logic import (conj, disj, neg, implies, iff, ite, eq, ne, lt, le, gt, ge, between, forall, exists, length)
from specs.graph import *  # noqa: F401,F403
from specs.graph import metric_hyp
from specs import supervised as SP

Q = "opfython.models.semi_supervised.SemiSupervisedOPF.fit"


def semi_requires(v):
    return SP.fit_requires(v) + [("unlabeled", ge(length(v.X_unlabeled), 0))]


def append_inv(v, old, le_):
    """the labelled part (with the prototypes chosen on it) is untouched; k unlabeled nodes appended"""
    m, sg = v.self, v.self.subgraph
    N = sg.nodes
    nl = length(v.X_train)
    k = v.loop0_k
    n = length(N)
    return [
        ("n", conj(eq(n, nl + k), le(k, length(v.X_unlabeled)), ge(nl, 1))),
        ("cfg", eq(m.pre_computed_distance, old.self.pre_computed_distance)),
        ("labelled", forall(0, nl, lambda x: conj(eq(N[x].label, v.Y_train[x]), ge(N[x].label, 0), ge(N[x].idx, 0),
                                                  eq(N[x].features, v.X_train[x]), eq(N[x].predicted_label, 0),
                                                  eq(N[x].relevant, IRRELEVANT)))),
        ("status_ok", SP.statuses_ok(sg)),
        ("some_prototype", exists(0, nl, lambda x: eq(N[x].status, PROTOTYPE))),
        ("appended", forall(nl, n, lambda x: conj(eq(N[x].status, STANDARD), eq(N[x].label, 0), eq(N[x].idx, x),
                                                  eq(N[x].features, v.X_unlabeled[x - nl]),
                                                  eq(N[x].predicted_label, 0), eq(N[x].relevant, IRRELEVANT)))),
        ("ord_empty", eq(length(sg.idx_nodes), 0)),
    ]


contract(Q,
         params={"self": "obj:SemiSupervisedOPF", "X_train": "list[feat]", "Y_train": "list[int]",
                 "X_unlabeled": "list[feat]", "I_train": "optlist[int]"},
         props=["C15"],
         requires=semi_requires,
         ensures=lambda v, old, result: SP.fit_ensures(v, old, result, semi=True),
         modifies=["self.subgraph"],
         hints=[("after:loop2", SP.fit_exit_hints)],
         lemmas=[("before:h.cost[i] = 0", "cost_write", lambda v: {"h": v.h, "x": v.i}),
                 ("before:h.cost[i] = c.FLOAT_MAX", "cost_write", lambda v: {"h": v.h, "x": v.i}),
                 ("after:loop2", "inj_card", lambda v: {"f": v.self.subgraph.idx_nodes, "g": v.g_rank,
                                                       "a": length(v.self.subgraph.idx_nodes),
                                                       "b": length(v.self.subgraph.nodes)}),
                 ("after:loop2", "inj_card", lambda v: {"f": v.g_rank, "g": v.self.subgraph.idx_nodes,
                                                       "a": length(v.self.subgraph.nodes),
                                                       "b": length(v.self.subgraph.idx_nodes)})],
         ghost=[("after:h = Heap(size=self.subgraph.n_nodes)", "g_rank = [0 for _ in range(self.subgraph.n_nodes)]"),
                ("after:self.subgraph.idx_nodes.append(p)", "g_rank[p] = len(self.subgraph.idx_nodes) - 1")],
         loops=[LoopSpec("for", var="(i, feature)", inv=append_inv),
                LoopSpec("for", var="i", inv=lambda v, old, le_: SP.fit_init_inv(v, old, le_, semi=True)),
                LoopSpec("while", inv=lambda v, old, le_: SP.fit_outer_inv(v, old, le_, semi=True)),
                LoopSpec("for", var="q", inv=lambda v, old, le_: SP.fit_inner_inv(v, old, le_, semi=True))])
