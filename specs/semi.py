"""Contract for opfython/models/semi_supervised.py: SemiSupervisedOPF.fit (C15)."""
from pyvc.contracts import contract, LoopSpec
from pyvc.logic import (conj, disj, neg, implies, iff, ite, eq, ne, lt, le, gt, ge, between, forall, exists, length)
from specs.graph import *  # noqa: F401,F403
from specs.graph import metric_hyp
from specs import supervised as SP

Q = "opfython.models.semi_supervised.SemiSupervisedOPF.fit"


def semi_requires(v):
    return SP.fit_requires(v) + [("unlabeled", ge(length(v.X_unlabeled), 0))]


def append_inv(v, old, le_):
    """the labelled part (with the prototypes chosen on it) is untouched; k unlabeled nodes appended"""
    m, sg = v.self, v.self.subgraph
    N = sg.nodes
    nl = length(v.X_train)
    k = v.loop0_k
    n = length(N)
    return [
        ("n", conj(eq(n, nl + k), le(k, length(v.X_unlabeled)), ge(nl, 1))),
        ("cfg", eq(m.pre_computed_distance, old.self.pre_computed_distance)),
        ("labelled", forall(0, nl, lambda x: conj(eq(N[x].label, v.Y_train[x]), ge(N[x].label, 0), ge(N[x].idx, 0),
                                                  eq(N[x].features, v.X_train[x]), eq(N[x].predicted_label, 0),
                                                  eq(N[x].relevant, IRRELEVANT)))),
        ("status_ok", SP.statuses_ok(sg)),
        ("some_prototype", exists(0, nl, lambda x: eq(N[x].status, PROTOTYPE))),
        ("appended", forall(nl, n, lambda x: conj(eq(N[x].status, STANDARD), eq(N[x].label, 0), eq(N[x].idx, x),
                                                  eq(N[x].features, v.X_unlabeled[x - nl]),
                                                  eq(N[x].predicted_label, 0), eq(N[x].relevant, IRRELEVANT)))),
        ("ord_empty", eq(length(sg.idx_nodes), 0)),
    ]


contract(Q,
         params={"self": "obj:SemiSupervisedOPF", "X_train": "list[feat]", "Y_train": "list[int]",
                 "X_unlabeled": "list[feat]", "I_train": "optlist[int]"},
         props=["C15"],
         requires=semi_requires,
         ensures=lambda v, old, result: SP.fit_ensures(v, old, result, semi=True),
         modifies=["self.subgraph"],
         hints=[("after:loop2", SP.fit_exit_hints)],
         lemmas=[("before:h.cost[i] = 0", "cost_write", lambda v: {"h": v.h, "x": v.i}),
                 ("before:h.cost[i] = c.FLOAT_MAX", "cost_write", lambda v: {"h": v.h, "x": v.i}),
                 ("after:loop2", "inj_card", lambda v: {"f": v.self.subgraph.idx_nodes, "g": v.g_rank,
                                                       "a": length(v.self.subgraph.idx_nodes),
                                                       "b": length(v.self.subgraph.nodes)}),
                 ("after:loop2", "inj_card", lambda v: {"f": v.g_rank, "g": v.self.subgraph.idx_nodes,
                                                       "a": length(v.self.subgraph.nodes),
                                                       "b": length(v.self.subgraph.idx_nodes)})],
         ghost=[("after:h = Heap(size=self.subgraph.n_nodes)", "g_rank = [0 for _ in range(self.subgraph.n_nodes)]"),
                ("after:self.subgraph.idx_nodes.append(p)", "g_rank[p] = len(self.subgraph.idx_nodes) - 1")],
         loops=[LoopSpec("for", var="(i, feature)", inv=append_inv),
                LoopSpec("for", var="i", inv=lambda v, old, le_: SP.fit_init_inv(v, old, le_, semi=True)),
                LoopSpec("while", inv=lambda v, old, le_: SP.fit_outer_inv(v, old, le_, semi=True)),
                LoopSpec("for", var="q", inv=lambda v, old, le_: SP.fit_inner_inv(v, old, le_, semi=True))])


# ------------------------------------------------------------------ C15, last clause: empty unlabeled set == supervised
# Relational obligation by mechanical statement alignment (DESIGN §3 C15): the body of SemiSupervisedOPF.fit, minus
#   (r1) `current_n_nodes = self.subgraph.n_nodes`,
#   (r2) the append loop `for i, feature in enumerate(X_unlabeled): ...`  (zero iterations when X_unlabeled is empty),
#   (r3) stores `self.subgraph.nodes[q].label = <expr>` inside the competition loop,
# must be statement-for-statement the body of SupervisedOPF.fit (log texts and the keyword form of `I=` aside), and the
# removed parts must not influence what the rest computes: `current_n_nodes` is read nowhere else, and no statement at or
# after the first removed `label` store - nor any repository function callable from there - reads a `.label` field.
# Then both functions run the same statements on the same state up to `.label` fields nobody reads: identical cost, pred,
# status, predicted_label, root, conquest order.  Three-valued: a shape that is not recognised gives no verdict.
import ast as _ast
from pyvc.contracts import STATICS


def _strip_logs(stmts):
    out = []
    for s in stmts:
        if isinstance(s, _ast.Expr) and isinstance(s.value, _ast.Constant):
            continue
        if isinstance(s, _ast.Expr) and isinstance(s.value, _ast.Call) and _ast.unparse(s.value.func).startswith("logger."):
            continue
        out.append(s)
    return out


class _DropLabelStores(_ast.NodeTransformer):
    def __init__(self):
        self.dropped = []

    def visit_Assign(self, node):
        t = node.targets[0]
        if len(node.targets) == 1 and isinstance(t, _ast.Attribute) and t.attr == "label" \
                and _ast.unparse(t.value).startswith("self.subgraph.nodes["):
            self.dropped.append(node)
            return None
        return node


def _norm(s):
    txt = _ast.unparse(s)
    return txt.replace("Subgraph(X_train, Y_train, I=I_train)", "Subgraph(X_train, Y_train, I_train)")


def _semi_equals_supervised(repo):
    out = []
    sup, _, _ = repo.function("opfython.models.supervised.SupervisedOPF.fit")
    semi, _, _ = repo.function("opfython.models.semi_supervised.SemiSupervisedOPF.fit")
    a = _strip_logs(sup.body)
    b = _strip_logs(semi.body)
    # (r1) / (r2)
    removed, rest = [], []
    for s in b:
        if isinstance(s, _ast.Assign) and _ast.unparse(s) == "current_n_nodes = self.subgraph.n_nodes":
            removed.append(s)
        elif isinstance(s, _ast.For) and _ast.unparse(s.iter) == "enumerate(X_unlabeled)" and not s.orelse:
            removed.append(s)
        else:
            rest.append(s)
    loops = [s for s in removed if isinstance(s, _ast.For)]
    out.append(("append-loop/zero-trip-when-empty", True if len(loops) == 1 else None, loops[0].lineno if loops else 0,
                "%d loop(s) over enumerate(X_unlabeled)" % len(loops)))
    # the third positional parameter of Subgraph.__init__ is I
    init = repo.classes["Subgraph"].methods.get("__init__")
    params = [x.arg for x in init.args.args] if init is not None else []
    out.append(("subgraph/third-parameter-is-I", True if params[:4] == ["self", "X", "Y", "I"] else None, 0, str(params[:5])))
    # (r3)
    import copy
    dropper = _DropLabelStores()
    rest2 = [dropper.visit(copy.deepcopy(s)) for s in rest]
    rest2 = [s for s in rest2 if s is not None]
    aligned = len(a) == len(rest2) and all(_norm(x) == _norm(y) for x, y in zip(a, rest2))
    first_diff = next((x.lineno for x, y in zip(a, rest2) if _norm(x) != _norm(y)), 0)
    out.append(("alignment/statement-for-statement", True if aligned else None, first_diff,
                "supervised fit has %d statements, semi-supervised fit %d after removing %d statement(s) and %d label store(s)"
                % (len(a), len(rest2), len(removed), len(dropper.dropped))))
    # non-interference: current_n_nodes
    used = [n.lineno for s in rest for n in _ast.walk(s) if isinstance(n, _ast.Name) and n.id == "current_n_nodes"]
    out.append(("removed/current_n_nodes-not-read-elsewhere", not used, used[0] if used else 0, ""))
    # non-interference: .label is not read at or after the first removed store
    if dropper.dropped:
        first = min(n.lineno for n in dropper.dropped)
        host = next((s for s in rest if s.lineno <= first <= getattr(s, "end_lineno", s.lineno)), None)
        tail = [s for s in rest if host is not None and s.lineno >= host.lineno]
        dropped_lines = {n.lineno for n in dropper.dropped}
        reads = [n.lineno for s in tail for n in _ast.walk(s)
                 if isinstance(n, _ast.Attribute) and n.attr == "label" and isinstance(n.ctx, _ast.Load)
                 and n.lineno not in dropped_lines]
        out.append(("removed/label-not-read-after-first-store", not reads, reads[0] if reads else 0, ""))
        # ... nor by a repository function callable from those statements (resolved by name, transitively)
        names, seen = set(), set()
        for s in tail:
            for n in _ast.walk(s):
                if isinstance(n, _ast.Call):
                    f = n.func
                    names.add(f.attr if isinstance(f, _ast.Attribute) else getattr(f, "id", ""))
        bad = []
        work = [x for x in names if x]
        while work:
            nm = work.pop()
            if nm in seen:
                continue
            seen.add(nm)
            for q in repo.functions:
                if q.split(".")[-1] != nm or ".math.distance." in q:
                    continue
                fn = repo.function(q)[0]
                for n in _ast.walk(fn):
                    if isinstance(n, _ast.Attribute) and n.attr == "label" and isinstance(n.ctx, _ast.Load):
                        bad.append("%s:L%d" % (q, n.lineno))
                    if isinstance(n, _ast.Call):
                        f = n.func
                        work.append(f.attr if isinstance(f, _ast.Attribute) else getattr(f, "id", ""))
        out.append(("removed/label-not-read-by-callees", not bad, 0, "; ".join(bad[:3]) or "callees by name: %s" % sorted(seen)[:12]))
    else:
        out.append(("removed/label-stores", None, 0, "no label store found in the competition loop"))
    return out


STATICS["semi_equals_supervised"] = _semi_equals_supervised
