"""Contracts for the choice of the neighbourhood size (C16) and the k-NN models' fit (C13 final clustering, C04-KNN)."""
from pyvc.contracts import contract, schema, lemma, LoopSpec
from pyvc.logic import (conj, disj, neg, implies, iff, ite, eq, ne, lt, le, gt, ge, between, forall, exists,
                        length, vmax, vmin, MODE, same_list)
from specs.graph import *  # noqa: F401,F403
from specs.graph import metric_hyp, W
from specs.supervised import rows_ok
from specs.arcs import exp_axioms
from specs import knn as K
from specs import knn_predict as KP

KS = "opfython.models.knn_supervised.KNNSupervisedOPF."
US = "opfython.models.unsupervised.UnsupervisedOPF."
BIG = 2 ** 53

# ------------------------------------------------------------------ opf_accuracy (ASSUMED here; C20 is about its body)

contract("opfython.math.general.opf_accuracy", params={"labels": "list[int]", "preds": "list[int]", "return": "real"},
         trusted=True, props=["C16"], at_caller=[KS + "_learn"],
         ensures=lambda v, old, result: [("range", conj(ge(result, 0), le(result, 1)))])


# ------------------------------------------------------------------ UnsupervisedOPF._normalized_cut

def nc_requires(v):
    sg = v.self.subgraph
    n = length(sg.nodes)
    return [("n", conj(ge(n, 1), lt(n, BIG))), ("k", ge(v.n_neighbours, 1)), ("metric", metric_hyp(symmetric=False)),
            ("clusters", conj(ge(sg.n_clusters, 0), le(sg.n_clusters, n),
                              forall(0, n, lambda x: conj(le(0, sg.nodes[x].cluster_label),
                                                          lt(sg.nodes[x].cluster_label, sg.n_clusters),
                                                          ge(sg.nodes[x].idx, 0))))),
            ("adj_long", K.adj_long(sg, v.n_neighbours)), ("adj_valid", K.adj_valid(sg))]


def nc_inv(v, old, le_):
    sg = v.self.subgraph
    nc = sg.n_clusters
    return [("arrays", conj(eq(length(v.internal_cluster), nc), eq(length(v.external_cluster), nc),
                            forall(0, nc, lambda l: conj(ge(v.internal_cluster[l], 0), ge(v.external_cluster[l], 0))))),
            ("cut0", eq(v.cut, 0))]


contract(US + "_normalized_cut", params={"self": "obj:UnsupervisedOPF", "n_neighbours": "int", "return": "real"},
         props=["C16"],
         requires=nc_requires,
         ensures=lambda v, old, result: [("range", conj(ge(result, 0), le(result, v.self.subgraph.n_clusters)))],
         modifies=[],
         loops=[LoopSpec("for", var="i", inv=nc_inv),
                LoopSpec("for", var="k", inv=lambda v, old, le_: nc_inv(v, old, le_) + [
                    ("i", conj(le(0, v.i), lt(v.i, length(v.self.subgraph.nodes)))),
                    ("n_adjacents", eq(v.n_adjacents, v.self.subgraph.nodes[v.i].n_plateaus + v.n_neighbours))]),
                LoopSpec("for", var="l", inv=lambda v, old, le_: [
                    ("arrays", conj(eq(length(v.internal_cluster), v.self.subgraph.n_clusters),
                                    eq(length(v.external_cluster), v.self.subgraph.n_clusters),
                                    forall(0, v.self.subgraph.n_clusters,
                                           lambda l: conj(ge(v.internal_cluster[l], 0), ge(v.external_cluster[l], 0))))),
                    ("cut", conj(ge(v.cut, 0), le(v.cut, v.l)))])])


# ------------------------------------------------------------------ UnsupervisedOPF._best_minimum_cut

def no_duplicates(m):
    """distinct training samples are at positive distance (keeps the density bound of every candidate k positive;
    see note N3 in DESIGN for what happens otherwise)"""
    sg = m.subgraph
    n = length(sg.nodes)
    return forall(0, n, lambda x, y: implies(ne(x, y), gt(W(m, x, y), 0)))


def bmc_requires(v):
    m, sg = v.self, v.self.subgraph
    n = length(sg.nodes)
    return [("range", conj(le(1, v.min_k), le(v.min_k, v.max_k), le(v.max_k, n - 1), lt(n, BIG))),
            ("metric", metric_hyp(symmetric=False)), ("exp", exp_axioms()),
            ("no_duplicates", no_duplicates(m)),
            ("fresh", forall(0, n, lambda x: conj(eq(length(sg.nodes[x].adjacency), 0), ge(sg.nodes[x].idx, 0),
                                                  ge(sg.nodes[x].label, 0), ge(sg.nodes[x].cluster_label, 0),
                                                  eq(sg.nodes[x].n_plateaus, 0)))),
            ("density0", ge(sg.density, 0)), ("ord_len", ge(length(sg.idx_nodes), 0))]


def bmc_static(v, old):
    m, sg = v.self, v.self.subgraph
    n = length(sg.nodes)
    N = sg.nodes
    return [
        ("range", conj(le(1, v.min_k), le(v.min_k, v.max_k), le(v.max_k, n - 1), lt(n, BIG),
                       eq(n, length(old.self.subgraph.nodes)))),
        ("cfg", eq(m.pre_computed_distance, old.self.pre_computed_distance)),
        ("static", forall(0, n, lambda x: conj(eq(N[x].idx, old.self.subgraph.nodes[x].idx),
                                               eq(N[x].features, old.self.subgraph.nodes[x].features),
                                               ge(N[x].idx, 0), ge(N[x].label, 0), ge(N[x].cluster_label, 0)))),
        ("no_duplicates", no_duplicates(m)),
        ("ord_len", ge(length(sg.idx_nodes), 0)),
    ]


def bmc_inv(v, old, le_):
    m, sg = v.self, v.self.subgraph
    n = length(sg.nodes)
    N = sg.nodes
    k = v.k
    md = v.max_distances
    cut = v.g_cut
    return bmc_static(v, old) + [
        ("arcs", conj(eq(length(md), v.max_k),
                      forall(0, v.max_k, lambda r: gt(md[r], 0)),
                      K.adj_valid(sg),
                      forall(0, n, lambda x: conj(ge(N[x].n_plateaus, 0),
                                                  eq(length(N[x].adjacency) - N[x].n_plateaus, v.max_k))))),
        # candidates min_k .. g_last have been evaluated (a prefix), the rest of [min_k, k) was skipped after a cut of 0
        ("evaluated", conj(le(v.min_k - 1, v.g_last), lt(v.g_last, k),
                           implies(lt(v.g_last, k - 1), eq(v.min_cut, 0)),
                           implies(eq(v.g_last, v.min_k - 1), conj(eq(k, v.min_k), eq(v.min_cut, FLOAT_MAX))))),
        ("cuts", forall(v.min_k, v.g_last + 1, lambda c: conj(ge(cut[c], 0), lt(cut[c], FLOAT_MAX), le(v.min_cut, cut[c])))),
        ("density_pos", gt(sg.density, 0)),
        ("best", implies(ge(v.g_last, v.min_k), conj(
            v.defined("best_k"), le(v.min_k, v.best_k), le(v.best_k, v.g_last), eq(cut[v.best_k], v.min_cut),
            forall(v.min_k, v.best_k, lambda c: gt(cut[c], v.min_cut))))),
    ]


def bmc_ensures(v, old, result):
    m, sg = v.self, v.self.subgraph
    n = length(sg.nodes)
    N = sg.nodes
    if MODE.kind != "sym":
        return []
    cut = v.ghost("g_cut", "list[real]")
    last = v.ghost("g_last", "int")
    b = sg.best_k
    return [
        ("evaluated_prefix", conj(le(v.min_k, last), le(last, v.max_k))),
        ("stops_only_after_zero", implies(lt(last, v.max_k), exists(v.min_k, last + 1, lambda c: eq(cut[c], 0)))),
        ("best_is_lowest", conj(le(v.min_k, b), le(b, last), forall(v.min_k, last + 1, lambda c: le(cut[b], cut[c])))),
        ("best_is_smallest", forall(v.min_k, b, lambda c: gt(cut[c], cut[b]))),
        # the graph left behind was built with best_k
        ("final_arcs", forall(0, n, lambda x: conj(eq(length(N[x].adjacency), b), eq(N[x].n_plateaus, 0)))),
        ("final_ready", conj(K.adj_valid(sg), K.density_ready(sg), K.adj_long(sg, b), gt(sg.constant, 0),
                             le(sg.min_density, sg.max_density), ge(sg.min_density, 0), le(sg.max_density, 1))),
        ("static", forall(0, n, lambda x: conj(eq(N[x].idx, old.self.subgraph.nodes[x].idx),
                                               eq(N[x].features, old.self.subgraph.nodes[x].features),
                                               ge(N[x].cluster_label, 0), ge(N[x].label, 0)))),
        ("ord_len", ge(length(sg.idx_nodes), 0)),
        ("n", eq(n, length(old.self.subgraph.nodes))),
    ]


ARGS4 = "self.distance_fn, self.pre_computed_distance, self.pre_distances"

contract(US + "_best_minimum_cut", params={"self": "obj:UnsupervisedOPF", "min_k": "int", "max_k": "int"},
         props=["C16"], locals_types={"best_k": "int", "cut": "real"},
         requires=bmc_requires, ensures=bmc_ensures,
         modifies=["self.subgraph.nodes.adjacency", "self.subgraph.nodes.radius", "self.subgraph.nodes.n_plateaus",
                   "self.subgraph.density", "self.subgraph.best_k", "self.subgraph.constant",
                   "self.subgraph.min_density", "self.subgraph.max_density", "self.subgraph.nodes.density",
                   "self.subgraph.nodes.cost", "self.subgraph.nodes.pred", "self.subgraph.nodes.root",
                   "self.subgraph.nodes.cluster_label", "self.subgraph.idx_nodes", "self.subgraph.n_clusters"],
         hints=[("after:min_cut = c.FLOAT_MAX", lambda v, old: [
             ("md_positive", forall(0, v.max_k, lambda r: conj(
                 lt(r, length(v.self.subgraph.nodes[0].adjacency)),
                 le(W(v.self, 0, v.self.subgraph.nodes[0].adjacency[r]), v.max_distances[r]),
                 gt(W(v.self, 0, v.self.subgraph.nodes[0].adjacency[r]), 0),
                 gt(v.max_distances[r], 0)), pats=lambda r: [v.max_distances[r]]))])],
         late_hints=[("before:self.subgraph.calculate_pdf(best_k, self.distance_fn, self.pre_computed_distance, self.pre_distances)",
                      lambda v, old: [
                          ("final_lengths", forall(0, length(v.self.subgraph.nodes), lambda x: conj(
                              eq(length(v.self.subgraph.nodes[x].adjacency), v.best_k), ge(v.self.subgraph.nodes[x].idx, 0)))),
                          ("final_valid", K.adj_valid(v.self.subgraph))])],
         ghost=[("after:min_cut = c.FLOAT_MAX", "g_cut = [0.0 for _ in range(max_k + 1)]\ng_last = min_k - 1"),
                ("after:cut = self._normalized_cut(k)", "g_cut[k] = cut\ng_last = k")],
         loops=[LoopSpec("for", var="k", inv=bmc_inv)])


# ------------------------------------------------------------------ UnsupervisedOPF.fit

def ufit_requires(v):
    n = length(v.X_train)
    return rows_ok(v.X_train, v.Y_train, v.I_train) + [
        ("range", conj(le(1, v.self.min_k), le(v.self.min_k, v.self.max_k), le(v.self.max_k, n - 1), lt(n, BIG))),
        ("metric", metric_hyp(symmetric=False)), ("exp", exp_axioms()),
        ("no_duplicates_data", no_dup_inputs(v)),
    ]


def no_dup_inputs(v):
    """stated on the inputs: rows are pairwise at positive distance (through the index arrays when pre-computed)"""
    if MODE.kind != "sym":
        return True
    import z3
    from pyvc.engine import DFN, PRE
    n = length(v.X_train)
    m = v.self
    I = v.I_train
    return forall(0, n, lambda x, y: implies(ne(x, y), gt(ite(m.pre_computed_distance,
                                                            PRE(ite(I.present, I[x], x), ite(I.present, I[y], y)),
                                                            DFN(v.X_train[x], v.X_train[y])), 0)))


contract(US + "fit",
         params={"self": "obj:UnsupervisedOPF", "X_train": "list[feat]", "Y_train": "list[int]", "I_train": "optlist[int]"},
         props=["C16", "C13"], configs=[{}, {"Y_train": None}],
         requires=ufit_requires,
         ensures=lambda v, old, result: ([] if MODE.kind != "sym" else [
             ("trained", eq(v.self.subgraph.trained, True)),
             ("best_k_in_range", conj(le(v.self.min_k, v.self.subgraph.best_k), le(v.self.subgraph.best_k, v.self.max_k))),
         ] + K.forest_post_after(v, True) + K.clusters_post_after(v)),
         modifies=["self.subgraph"])


# ------------------------------------------------------------------ KNNSupervisedOPF._learn / fit

def learn_requires(v):
    n = length(v.X_train)
    return rows_ok(v.X_train, v.Y_train, v.I_train) + rows_ok(v.X_val, v.Y_val, v.I_val) + [
        ("range", conj(le(1, v.self.max_k), le(v.self.max_k, n - 1), lt(n, BIG))),
        ("metric", metric_hyp(symmetric=False)), ("exp", exp_axioms()),
        ("matrix_shape", implies(v.self.pre_computed_distance, conj(eq(v.self.pre_distances.shape[0], n),
                                                                    eq(v.self.pre_distances.shape[1], n)))),
    ]


def learn_inv(v, old, le_):
    m, sg = v.self, v.self.subgraph
    n = length(sg.nodes)
    N = sg.nodes
    k = v.k
    acc = v.g_acc
    return [
        ("range", conj(le(1, m.max_k), le(m.max_k, n - 1), lt(n, BIG), eq(n, length(v.X_train)),
                       eq(m.max_k, old.self.max_k))),
        ("cfg", eq(m.pre_computed_distance, old.self.pre_computed_distance)),
        ("static", forall(0, n, lambda x: conj(eq(N[x].features, v.X_train[x]), ge(N[x].idx, 0), ge(N[x].label, 0),
                                               eq(N[x].label, v.Y_train[x]),
                                               ge(N[x].cluster_label, 0), ge(N[x].predicted_label, 0)))),
        ("fresh", forall(0, n, lambda x: conj(eq(length(N[x].adjacency), 0), eq(N[x].n_plateaus, 0)))),
        ("density0", ge(sg.density, 0)), ("ord_len", ge(length(sg.idx_nodes), 0)),
        ("accs", forall(1, k, lambda c: conj(ge(acc[c], 0), le(acc[c], v.max_acc)))),
        ("best", disj(conj(eq(v.best_k, 1), eq(v.max_acc, 0), forall(1, k, lambda c: eq(acc[c], 0))),
                      conj(le(1, v.best_k), lt(v.best_k, k), eq(acc[v.best_k], v.max_acc), gt(v.max_acc, 0),
                           forall(1, v.best_k, lambda c: lt(acc[c], v.max_acc))))),
    ]


def learn_ensures(v, old, result):
    m, sg = v.self, v.self.subgraph
    n = length(sg.nodes)
    N = sg.nodes
    if MODE.kind != "sym":
        return []
    acc = v.ghost("g_acc", "list[real]")
    b = sg.best_k
    return [
        ("best_is_highest", conj(le(1, b), le(b, m.max_k), forall(1, m.max_k + 1, lambda c: le(acc[c], acc[b])))),
        ("best_is_smallest", forall(1, b, lambda c: lt(acc[c], acc[b]))),
        ("n", conj(eq(n, length(v.X_train)), eq(m.max_k, old.self.max_k))),
        ("static", forall(0, n, lambda x: conj(eq(N[x].features, v.X_train[x]), ge(N[x].idx, 0),
                                               eq(N[x].label, v.Y_train[x]), ge(N[x].label, 0),
                                               ge(N[x].cluster_label, 0), ge(N[x].predicted_label, 0)))),
        ("fresh", forall(0, n, lambda x: conj(eq(length(N[x].adjacency), 0), eq(N[x].n_plateaus, 0)))),
        ("density0", ge(sg.density, 0)), ("ord_len", ge(length(sg.idx_nodes), 0)),
    ]


contract(KS + "_learn",
         params={"self": "obj:KNNSupervisedOPF", "X_train": "list[feat]", "Y_train": "list[int]", "I_train": "optlist[int]",
                 "X_val": "list[feat]", "Y_val": "list[int]", "I_val": "optlist[int]"},
         props=["C16"], locals_types={"acc": "real"},
         requires=learn_requires, ensures=learn_ensures,
         modifies=["self.subgraph"],
         ghost=[("after:max_acc = 0.0", "g_acc = [0.0 for _ in range(self.max_k + 1)]"),
                ("after:acc = g.opf_accuracy(Y_val, preds)", "g_acc[k] = acc")],
         loops=[LoopSpec("for", var="k", inv=learn_inv)])


contract(KS + "fit",
         params={"self": "obj:KNNSupervisedOPF", "X_train": "list[feat]", "Y_train": "list[int]", "X_val": "list[feat]",
                 "Y_val": "list[int]", "I_train": "optlist[int]", "I_val": "optlist[int]"},
         props=["C16", "C13", "C04"],
         requires=learn_requires,
         ensures=lambda v, old, result: ([] if MODE.kind != "sym" else [
             ("trained", eq(v.self.subgraph.trained, True)),
             ("best_k_in_range", conj(le(1, v.self.subgraph.best_k), le(v.self.subgraph.best_k, v.self.max_k))),
             ("C04_own_labels", forall(0, length(v.X_train), lambda x: conj(
                 eq(v.self.subgraph.nodes[x].predicted_label, v.Y_train[x]),
                 eq(v.self.subgraph.nodes[x].label, v.Y_train[x])))),
         ] + K.forest_post_after(v, False)),
         modifies=["self.subgraph"])
