"""Contracts for the k-nearest max-min prediction rule (C14, C09): KNNSupervisedOPF.predict, UnsupervisedOPF.predict,
and KNNSubgraph.__init__."""
from pyvc.contracts import contract, schema, lemma, LoopSpec
from pyvc.logic import (conj, disj, neg, implies, iff, ite, eq, ne, lt, le, gt, ge, between, forall, exists,
                        length, vmax, vmin, MODE, same_list)
from specs.graph import *  # noqa: F401,F403
from specs.graph import metric_hyp
from specs.supervised import built, rows_ok
from specs.arcs import buffer_clauses, bubble_clauses, exp_axioms

KS = "opfython.models.knn_supervised.KNNSupervisedOPF."
US = "opfython.models.unsupervised.UnsupervisedOPF."
EPSILON = 1e-20

contract("opfython.subgraphs.knn.KNNSubgraph.__init__",
         params={"self": "obj:KNNSubgraph", "X": "list[feat]", "Y": "list[int]", "I": "optlist[int]", "from_file": "none"},
         props=["C14", "C16", "C13", "C09"], configs=[{}, {"Y": None}],
         requires=lambda v: rows_ok(v.X, v.Y, v.I),
         ensures=lambda v, old, result: [
             ("n", eq(length(v.self.nodes), length(v.X))),
             ("fields", built(v.self, v.X, v.Y, v.I, length(v.X))),
             ("ord_empty", eq(length(v.self.idx_nodes), 0)),
             ("untrained", eq(v.self.trained, False)),
             ("knn_fields", conj(eq(v.self.n_clusters, 0), eq(v.self.best_k, 0), eq(v.self.constant, 0),
                                 eq(v.self.density, 0), eq(v.self.min_density, 0), eq(v.self.max_density, 0))),
         ],
         modifies=["self.nodes", "self.idx_nodes", "self.trained", "self.n_features", "self.n_nodes",
                   "self.n_clusters", "self.best_k", "self.constant", "self.density", "self.min_density",
                   "self.max_density"])


def WQ(v, i, t):
    """weight between query i and training sample t, exactly as predict reads it (query first)"""
    m, ps = v.self, v.pred_subgraph
    sg = m.subgraph
    return ite(m.pre_computed_distance,
               m.pre_distances[ps.nodes[i].idx][sg.nodes[t].idx],
               m.distance_fn(ps.nodes[i].features, sg.nodes[t].features))


def kp_fitted(m, unsup):
    """what prediction needs of the fitted model"""
    sg = m.subgraph
    n = length(sg.nodes)
    return conj(ge(n, 1), ge(sg.best_k, 1), le(sg.best_k, n), gt(sg.constant, 0), le(sg.min_density, sg.max_density),
                ge(sg.min_density, 0), le(sg.max_density, 1),
                forall(0, n, lambda t: conj(ge(sg.nodes[t].predicted_label, 0), ge(sg.nodes[t].cluster_label, 0),
                                            ge(sg.nodes[t].idx, 0), gt(sg.nodes[t].cost, -FLOAT_MAX))),
                eq(sg.trained, True) if unsup else True)


def kp_requires(v, unsup=False, xname="X_test", iname="I_test"):
    X, I = getattr(v, xname), getattr(v, iname)
    return [("fitted", kp_fitted(v.self, unsup)), ("metric", metric_hyp(symmetric=False)), ("exp", exp_axioms()),
            ("queries", ge(length(X), 1)),
            ("index_ok", implies(I.present, conj(ge(length(I.value), length(X)),
                                                 forall(0, length(X), lambda i: ge(I[i], 0)))))]


def kp_static(v, old, unsup, xname):
    m, sg, ps = v.self, v.self.subgraph, v.pred_subgraph
    X = getattr(v, xname)
    k = v.best_k
    return [
        ("fitted", kp_fitted(m, unsup)),
        ("k", conj(eq(k, sg.best_k), eq(length(v.distances), k + 1), eq(length(v.neighbours_idx), k + 1))),
        ("queries", conj(eq(length(ps.nodes), length(X)),
                         forall(0, length(X), lambda a: conj(eq(ps.nodes[a].features, X[a]), ge(ps.nodes[a].idx, 0),
                                                             ge(ps.nodes[a].predicted_label, 0),
                                                             ge(ps.nodes[a].cluster_label, 0))))),
    ]


def kp_outer(v, old, le_, unsup=False, xname="X_test"):
    return kp_static(v, old, unsup, xname)


def kp_scan(v, old, le_, unsup=False, xname="X_test"):
    sg, ps = v.self.subgraph, v.pred_subgraph
    n = length(sg.nodes)
    i, j, k = v.i, v.j, v.best_k
    return kp_static(v, old, unsup, xname) + [
        ("i", conj(le(0, i), lt(i, length(ps.nodes)))),
        ("count", eq(v.g_m, vmin(k, j))),
    ] + buffer_clauses(n, k, v.distances, v.neighbours_idx, v.g_slot, v.g_m, j, lambda t: WQ(v, i, t),
                       stable=True)


def kp_bubble(v, old, le_, unsup=False, xname="X_test"):
    sg, ps = v.self.subgraph, v.pred_subgraph
    n = length(sg.nodes)
    i, j, k, c = v.i, v.j, v.best_k, v.cur_k
    out = kp_static(v, old, unsup, xname) + [
        ("i", conj(le(0, i), lt(i, length(ps.nodes)), le(0, j), lt(j, n))),
        ("count", eq(v.g_m, vmin(k, j))),
        ("slot_same", forall(0, n, lambda t: eq(v.g_slot[t], le_.g_slot[t]))),
    ] + bubble_clauses(k, c, v.distances, v.neighbours_idx, le_.distances, le_.neighbours_idx, j, WQ(v, i, j),
                       strict=True)
    out += [("snap_" + nm, t) for nm, t in
            buffer_clauses(n, k, le_.distances, le_.neighbours_idx, le_.g_slot, v.g_m, j, lambda t: WQ(v, i, t),
                           stable=True)]
    return out


def dens_raw(v):
    """the estimate before the affine map: (sum of exp(-d/constant) over the k buffer distances) / k"""
    return v.g_ps[v.best_k] / v.best_k


def dens_mapped(v, raw):
    sg = v.self.subgraph
    from pyvc.logic import realval
    eps = realval(EPSILON) if MODE.kind == "sym" else EPSILON     # the exact value of the double 1e-20
    return ((MAX_DENSITY - 1) * (raw - sg.min_density) / (sg.max_density - sg.min_density + eps)) + 1


def full_buffer(v):
    sg = v.self.subgraph
    n = length(sg.nodes)
    return buffer_clauses(n, v.best_k, v.distances, v.neighbours_idx, v.g_slot, v.g_m, n, lambda t: WQ(v, v.i, t),
                          stable=True) + [
        ("count", conj(eq(v.g_m, v.best_k)))]


def ps_chain(v, upto):
    from pyvc.engine import EXP
    c = v.self.subgraph.constant
    return conj(eq(v.g_ps[0], 0),
                forall(0, upto, lambda t: eq(v.g_ps[t + 1], v.g_ps[t] + EXP(-v.distances[t] / c))))


def kp_density(v, old, le_, unsup=False, xname="X_test"):
    ps = v.pred_subgraph
    return kp_static(v, old, unsup, xname) + [("i", conj(le(0, v.i), lt(v.i, length(ps.nodes))))] + full_buffer(v) + [
        ("partial", conj(eq(v.density, v.g_ps[v.k]), ps_chain(v, v.k), forall(0, v.k + 1, lambda t: ge(v.g_ps[t], 0)))),
    ]


def kp_choose(v, old, le_, unsup=False, xname="X_test"):
    sg, ps = v.self.subgraph, v.pred_subgraph
    N = sg.nodes
    i, kk = v.i, v.k
    nb = v.neighbours_idx
    val = lambda t: vmin(N[nb[t]].cost, v.density)
    out = kp_static(v, old, unsup, xname) + [("i", conj(le(0, i), lt(i, length(ps.nodes))))] + full_buffer(v) + [
        ("density_chain", ps_chain(v, v.best_k)),
        ("density_value", eq(v.density, dens_mapped(v, dens_raw(v)))),
        ("density_lower", conj(ge(v.g_ps[v.best_k], 0), gt(v.density, -FLOAT_MAX))),
        ("best_so_far", conj(
            forall(0, kk, lambda t: le(val(t), v.cost)),
            disj(conj(eq(kk, 0), eq(v.cost, -FLOAT_MAX)),
                 conj(le(0, v.g_w), lt(v.g_w, kk), eq(v.cost, val(v.g_w)),
                      eq(ps.nodes[i].predicted_label, N[nb[v.g_w]].predicted_label),
                      eq(ps.nodes[i].cluster_label, N[nb[v.g_w]].cluster_label) if unsup else True)))),
        # tie policy (C09 only): the strict update keeps the FIRST maximiser in buffer order
        ("tie_first_so_far", implies(gt(kk, 0), forall(0, v.g_w, lambda t: lt(val(t), v.cost)))),
    ]
    return out


def kp_answer(v, old, unsup=False):
    """C14 for the query just processed (asserted at the end of every iteration of the query loop)"""
    sg, ps = v.self.subgraph, v.pred_subgraph
    N = sg.nodes
    n = length(N)
    i, k = v.i, v.best_k
    nb, dist = v.neighbours_idx, v.distances
    val = lambda t: vmin(N[nb[t]].cost, v.density)
    w = v.g_w
    return [
        # the k nearest are taken over ALL training samples: buffer = k distinct samples with their distances, ascending,
        # and every training sample outside the buffer is at least as far as the k-th
        ("k_nearest_distinct", forall(0, k, lambda r, s: implies(ne(r, s), ne(nb[r], nb[s])))),
        ("k_nearest_entries", forall(0, k, lambda r: conj(le(0, nb[r]), lt(nb[r], n), eq(dist[r], WQ(v, i, nb[r]))))),
        ("k_nearest_ascending", forall(0, k, lambda r, s: implies(lt(r, s), le(dist[r], dist[s])))),
        ("nobody_closer_outside", forall(0, n, lambda t: implies(forall(0, k, lambda r: ne(nb[r], t)),
                                                                 le(dist[k - 1], WQ(v, i, t))))),
        # ... and WHICH k samples, in which order, is fixed by the data alone (C09): the buffer is strictly ascending in
        # the lexicographic order on (distance to the query, position in the training set), and every sample outside
        # comes after its last entry in that order; lemmas/KNearest.lean: at most one buffer satisfies this
        ("tie_k_nearest_lex_ascending", forall(0, k, lambda r, s: implies(lt(r, s), disj(
            lt(dist[r], dist[s]), conj(eq(dist[r], dist[s]), lt(nb[r], nb[s])))))),
        ("tie_outside_lex_after", forall(0, n, lambda t: implies(forall(0, k, lambda r: ne(nb[r], t)), disj(
            lt(dist[k - 1], WQ(v, i, t)), conj(eq(dist[k - 1], WQ(v, i, t)), lt(nb[k - 1], t)))))),
        # density from those k distances with the stored constant and range
        ("density_formula", conj(ps_chain(v, k), eq(v.density, dens_mapped(v, v.g_ps[k] / k)))),
        # label (and cluster) of a neighbour maximising min(cost, density) among them
        ("winner", conj(le(0, w), lt(w, k), forall(0, k, lambda t: le(val(t), val(w))),
                        eq(ps.nodes[i].predicted_label, N[nb[w]].predicted_label),
                        eq(ps.nodes[i].cluster_label, N[nb[w]].cluster_label) if unsup else True)),
        # ... the FIRST such neighbour in buffer order (strict update), so the winner too is fixed by the data (C09)
        ("tie_winner_is_first_maximiser", forall(0, w, lambda t: lt(val(t), val(w)))),
    ]


GHOST_KP = [
    ("after:neighbours_idx = np.zeros(best_k + 1)",
     "g_m = 0\ng_slot = [best_k for _ in range(self.subgraph.n_nodes)]\ng_ps = [0.0 for _ in range(best_k + 1)]\ng_w = 0"),
    ("after:distances.fill(c.FLOAT_MAX)", "g_m = 0\ng_slot = [best_k for _ in range(self.subgraph.n_nodes)]"),
    ("after:loop2",
     "g_slot = [(cur_k if t == j else (min(g_slot[t] + 1, best_k) if g_slot[t] >= cur_k else g_slot[t])) "
     "for t in range(self.subgraph.n_nodes)]\ng_m = min(g_m + 1, best_k)"),
    ("after:density = 0.0", "g_ps = [0.0 for _ in range(best_k + 1)]"),
    ("after:density += np.exp(-distances[k] / self.subgraph.constant)", "g_ps[k + 1] = density"),
    ("after:cost = temp_cost", "g_w = k"),
]


def kp_contract(q, cls, unsup, xname, iname):
    contract(q,
             params={"self": "obj:" + cls, xname: "list[feat]", iname: "optlist[int]", "return": "list[int]"},
             props=["C14", "C09"], split=True,
             locals_types={"neighbours_idx": "list[int]"},
             requires=lambda v: kp_requires(v, unsup, xname, iname),
             ensures=lambda v, old, result: ([] if MODE.kind != "sym" else [
                 ("len", conj(eq(length(result if not unsup else result[0]), length(getattr(v, xname))),
                              forall(0, length(getattr(v, xname)), lambda a: ge((result if not unsup else result[0])[a], 0)))),
             ] + ([
                 # (while predict itself is verified) the returned lists are the labels / clusters assigned in the loop,
                 # which the per-query assertion after:loop4 characterises
                 ("answers", forall(0, length(getattr(v, xname)), lambda a: eq(
                     (result if not unsup else result[0])[a], v.pred_subgraph.nodes[a].predicted_label))),
             ] + ([("clusters", forall(0, length(getattr(v, xname)), lambda a: eq(
                 result[1][a], v.pred_subgraph.nodes[a].cluster_label)))] if unsup else [])
                 if v.has("pred_subgraph") else [])),
             modifies=[],
             ghost=GHOST_KP,
             asserts=[("after:loop4", lambda v, old: kp_answer(v, old, unsup))],
             loops=[LoopSpec("for", var="i", inv=lambda v, old, le_: kp_outer(v, old, le_, unsup, xname)),
                    LoopSpec("for", var="j", inv=lambda v, old, le_: kp_scan(v, old, le_, unsup, xname)),
                    LoopSpec("while", inv=lambda v, old, le_: kp_bubble(v, old, le_, unsup, xname)),
                    LoopSpec("for", var="k", inv=lambda v, old, le_: kp_density(v, old, le_, unsup, xname)),
                    LoopSpec("for", var="k", inv=lambda v, old, le_: kp_choose(v, old, le_, unsup, xname))])


kp_contract(KS + "predict", "KNNSupervisedOPF", False, "X_test", "I_test")
kp_contract(US + "predict", "UnsupervisedOPF", True, "X_val", "I_val")
