"""Contracts for opfython/stream/splitter.py (C18: split / split_with_index / merge) and the assumed numpy contracts they use."""
import z3

from pyvc.contracts import contract, external, LoopSpec
from pyvc.logic import (conj, disj, neg, implies, iff, ite, eq, ne, lt, le, gt, ge, between, forall, exists,
                        length, vmax, vmin, MODE, lift, realval)
from pyvc.engine import SList, INT, REAL, FEAT, fresh, Unsupported, sort_of

AI = z3.ArraySort(INT, INT)
# numpy's global generator is modelled as an abstract state (an integer token) that lives in the symbolic state, so it
# is path-sensitive: on entry it is unknown, np.random.seed(s) sets it to RNG_AFTER_SEED(s), every draw moves it on.
RNG_AFTER_SEED = z3.Function("RNG_AFTER_SEED", INT, INT)
RNG_NEXT = z3.Function("RNG_NEXT", INT, INT)
PERM = z3.Function("PERM", INT, INT, AI)        # PERM(state, n): the permutation np.random.permutation(n) returns in that state
PERMINV = z3.Function("PERMINV", INT, INT, AI)


def perm_axioms(state, n):
    p, q = PERM(state, n), PERMINV(state, n)
    t = z3.Int("perm_t")
    return z3.ForAll([t], z3.Implies(z3.And(t >= 0, t < n), z3.And(
        z3.Select(p, t) >= 0, z3.Select(p, t) < n, z3.Select(q, z3.Select(p, t)) == t,
        z3.Select(q, t) >= 0, z3.Select(q, t) < n, z3.Select(p, z3.Select(q, t)) == t)),
        patterns=[z3.Select(p, t), z3.Select(q, t)])


def _no_loops(ex, what):
    if getattr(ex, "_loop_depth", 0):
        raise Unsupported("%s inside a loop (the generator state is not part of the loop's modified set)" % what)


@external("numpy.random.seed")
def np_seed(ex, st, args, kwargs, node):
    """ASSUMED: after np.random.seed(s) the generator state is a function of s only"""
    _no_loops(ex, "np.random.seed")
    st.locals["$rng"] = RNG_AFTER_SEED(lift(args[0], INT))
    return None


@external("numpy.random.permutation")
def np_permutation(ex, st, args, kwargs, node):
    """ASSUMED: permutation(n) is a bijection of 0..n-1 determined by (generator state, n); the state moves on"""
    _no_loops(ex, "np.random.permutation")
    state = fresh("rng.state", INT)          # a name for the current state (it may be a conditional term after a join)
    st.assume(state == st.locals["$rng"])
    n = lift(args[0], INT)
    st.assume(perm_axioms(state, n))
    st.locals["$rng"] = RNG_NEXT(state)
    return SList(PERM(state, n), n, "int")


@external("numpy.vstack")
@external("numpy.hstack")
def np_stack(ex, st, args, kwargs, node):
    """ASSUMED: stacking two arrays is concatenation along the first axis (rows / entries of the first, then the second)"""
    parts = args[0]
    if not (isinstance(parts, tuple) and len(parts) == 2 and all(isinstance(p, SList) for p in parts)
            and parts[0].elem == parts[1].elem):
        raise Unsupported("stack form")
    a, b = parts
    new = fresh("stack", a.arr.sort())
    r = z3.Int("stack_r")
    st.assume(z3.ForAll([r], z3.Implies(z3.And(r >= 0, r < lift(a.length + b.length, INT)),
                                        z3.Select(new, r) == z3.If(r < lift(a.length, INT), z3.Select(a.arr, r),
                                                                   z3.Select(b.arr, r - lift(a.length, INT)))),
                        patterns=[z3.Select(new, r)]))
    return SList(new, a.length + b.length, a.elem)


SP = "opfython.stream.splitter."


def halt_of(v):
    """int(len(X) * percentage): truncation of the (non-negative) product = floor"""
    n = lift(length(v.X), INT)
    prod = z3.ToReal(n) * realval(v.percentage)
    return z3.ToInt(prod)


def split_requires(v):
    return [("same_len", eq(length(v.X), length(v.Y))), ("percentage", conj(ge(v.percentage, 0), le(v.percentage, 1)))]


def split_post(v, X_1, X_2, Y_1, Y_2, I_1=None, I_2=None):
    n = lift(length(v.X), INT)
    h = halt_of(v)
    seed = RNG_AFTER_SEED(lift(v.random_state, INT))     # the state right after seeding with random_state
    p = SList(PERM(seed, n), n, "int")
    out = [
        ("sizes", conj(eq(length(X_1), h), eq(length(Y_1), h), eq(length(X_2), n - h), eq(length(Y_2), n - h),
                       le(0, h), le(h, n))),
        # row r of the first set is input row perm[r] with its own label; row r of the second is input row perm[h + r]
        ("first_set", forall(0, h, lambda r: conj(eq(X_1[r], v.X[p[r]]), eq(Y_1[r], v.Y[p[r]])))),
        ("second_set", forall(0, n - h, lambda r: conj(eq(X_2[r], v.X[p[h + r]]), eq(Y_2[r], v.Y[p[h + r]])))),
        # perm is a bijection of 0..n-1 that depends on (seed, n) only: every sample lands in exactly one set
        ("bijection", perm_axioms(seed, n)),
    ]
    if I_1 is not None:
        out += [("indices", conj(eq(length(I_1), h), eq(length(I_2), n - h),
                                 forall(0, h, lambda r: eq(I_1[r], p[r])),
                                 forall(0, n - h, lambda r: eq(I_2[r], p[h + r]))))]
    return out


contract(SP + "split", params={"X": "list[feat]", "Y": "list[int]", "percentage": "real", "random_state": "int",
                               "return": "tuple"},
         props=["C18"], requires=split_requires,
         ensures=lambda v, old, result: [] if MODE.kind != "sym" else split_post(v, result[0], result[1], result[2], result[3]))

contract(SP + "split_with_index", params={"X": "list[feat]", "Y": "list[int]", "percentage": "real", "random_state": "int",
                                          "return": "tuple"},
         props=["C18"], requires=split_requires,
         ensures=lambda v, old, result: [] if MODE.kind != "sym" else split_post(v, result[0], result[1], result[2], result[3],
                                                                                 result[4], result[5]))

contract(SP + "merge", params={"X_1": "list[feat]", "X_2": "list[feat]", "Y_1": "list[int]", "Y_2": "list[int]",
                               "return": "tuple"},
         props=["C18"],
         requires=lambda v: [("same_len", conj(eq(length(v.X_1), length(v.Y_1)), eq(length(v.X_2), length(v.Y_2))))],
         ensures=lambda v, old, result: [] if MODE.kind != "sym" else [
             ("sizes", conj(eq(length(result[0]), length(v.X_1) + length(v.X_2)), eq(length(result[1]), length(result[0])))),
             ("first_part", forall(0, length(v.X_1), lambda r: conj(eq(result[0][r], v.X_1[r]), eq(result[1][r], v.Y_1[r])))),
             ("second_part", forall(0, length(v.X_2), lambda r: conj(eq(result[0][length(v.X_1) + r], v.X_2[r]),
                                                                     eq(result[1][length(v.X_1) + r], v.Y_2[r]))))])
