"""Contracts for opfython/subgraphs/knn.py: create_arcs, calculate_pdf, eliminate_maxima_height, destroy_arcs (C12)."""
from pyvc.contracts import contract, schema, lemma, LoopSpec
from pyvc.logic import (conj, disj, neg, implies, iff, ite, eq, ne, lt, le, gt, ge, between, forall, exists,
                        length, vmax, vmin, MODE, same_list)
from specs.graph import *  # noqa: F401,F403
from specs.graph import metric_hyp

KG = "opfython.subgraphs.knn.KNNSubgraph."


def WS(v, i, j):
    """arc weight between nodes i and j of the subgraph `v.self`, exactly as create_arcs / calculate_pdf read it"""
    sg = v.self
    pre = v.pre_computed_distance
    fn = v.distance_function if hasattr(v, "distance_function") or MODE.kind == "sym" else None
    if isinstance(pre, bool):
        if pre:
            return v.pre_distances[sg.nodes[i].idx][sg.nodes[j].idx]
        return v.distance_function(sg.nodes[i].features, sg.nodes[j].features)
    return ite(pre, v.pre_distances[sg.nodes[i].idx][sg.nodes[j].idx],
               v.distance_function(sg.nodes[i].features, sg.nodes[j].features))


def kmin(k, n):
    """min(k, n - 1)"""
    return vmin(k, n - 1)


def node_arcs_parts(v, x, old):
    sg = v.self
    N = sg.nodes
    n = length(N)
    adj = N[x].adjacency
    m = length(adj)
    return [
        ("len", conj(eq(m, kmin(v.k, n)), eq(N[x].n_plateaus, 0))),
        ("valid", forall(0, m, lambda t: conj(le(0, adj[t]), lt(adj[t], n), ne(adj[t], x)))),
        ("distinct_ascending", forall(0, m, lambda s, t: implies(lt(s, t), conj(
            ne(adj[s], adj[t]), le(WS(v, x, adj[s]), WS(v, x, adj[t])))))),
        # no non-neighbour is closer than the farthest neighbour
        ("far", forall(0, n, lambda j: implies(conj(ne(j, x), forall(0, m, lambda t: ne(adj[t], j))),
                                               forall(0, m, lambda t: le(WS(v, x, adj[t]), WS(v, x, j)))))),
        ("radius", eq(N[x].radius, ite(ge(m, 1), WS(v, x, adj[m - 1]), 0))),
    ]


def node_arcs_done(v, x, old):
    """the per-sample clause of C12 for sample x"""
    return conj(*[t for _, t in node_arcs_parts(v, x, old)])


def ca_requires(v):
    sg = v.self
    n = length(sg.nodes)
    return [("k", ge(v.k, 1)), ("n", ge(n, 1)), ("metric", metric_hyp(symmetric=False)),
            ("fresh_arcs", forall(0, n, lambda x: eq(length(sg.nodes[x].adjacency), 0))),
            ("density_nonneg", ge(sg.density, 0)),
            ("idx", forall(0, n, lambda x: ge(sg.nodes[x].idx, 0)))]


def ca_static(v, old):
    sg = v.self
    n = length(sg.nodes)
    return [
        ("shape", conj(ge(v.k, 1), ge(n, 1), eq(n, length(old.self.nodes)),
                       eq(length(v.distances), v.k + 1), eq(length(v.neighbours_idx), v.k + 1),
                       eq(length(v.max_distances), v.k))),
        ("idx", forall(0, n, lambda x: conj(ge(sg.nodes[x].idx, 0), eq(sg.nodes[x].idx, old.self.nodes[x].idx),
                                            eq(sg.nodes[x].features, old.self.nodes[x].features)))),
    ]


def md_clauses(v, old, upto):
    """per-rank maxima and density bound over the samples < upto"""
    sg = v.self
    N = sg.nodes
    md, k = v.max_distances, v.k
    return [
        ("md_upper", forall(0, upto, lambda x: forall(0, length(N[x].adjacency), lambda t: conj(
            le(WS(v, x, N[x].adjacency[t]), md[t]), le(WS(v, x, N[x].adjacency[t]), sg.density))))),
        ("md_attained", forall(0, k, lambda r: conj(ge(md[r], 0), disj(
            eq(md[r], 0),
            conj(le(0, v.g_mdw[r]), lt(v.g_mdw[r], upto), lt(r, length(N[v.g_mdw[r]].adjacency)),
                 eq(md[r], WS(v, v.g_mdw[r], N[v.g_mdw[r]].adjacency[r]))))))),
        ("density_attained", conj(ge(sg.density, old.self.density), disj(
            eq(sg.density, old.self.density),
            conj(le(0, v.g_dx), lt(v.g_dx, upto), le(0, v.g_dt), lt(v.g_dt, length(N[v.g_dx].adjacency)),
                 eq(sg.density, WS(v, v.g_dx, N[v.g_dx].adjacency[v.g_dt])))))),
    ]


def ca_outer(v, old, le_):
    sg = v.self
    n = length(sg.nodes)
    i = v.i
    return ca_static(v, old) + [
        ("done", forall(0, i, lambda x: node_arcs_done(v, x, old))),
        ("todo", forall(i, n, lambda x: eq(length(sg.nodes[x].adjacency), 0))),
    ] + md_clauses(v, old, i)


def buffer_clauses(n_train, k, dist, nb, slot, m, j_bound, wfun, excl=None, stable=False):
    """the k-nearest buffer after the training samples < j_bound (other than `excl`) have been offered; m real
    entries; wfun(t) = weight between the sample being processed and training sample t"""
    ok = (lambda t: True) if excl is None else (lambda t: ne(t, excl))
    return [
        ("m", conj(le(0, m), le(m, k), eq(length(slot), n_train))),
        ("sorted", forall(0, m, lambda r, s: implies(lt(r, s), le(dist[r], dist[s])))),
        ("filler", forall(m, k, lambda r: eq(dist[r], FLOAT_MAX))),
        ("entries", forall(0, m, lambda r: conj(le(0, nb[r]), lt(nb[r], j_bound), ok(nb[r]), eq(slot[nb[r]], r),
                                                eq(dist[r], wfun(nb[r])), lt(dist[r], FLOAT_MAX), ge(dist[r], 0)))),
        ("offered", forall(0, j_bound, lambda t: implies(ok(t), conj(
            le(0, slot[t]), le(slot[t], k),
            implies(lt(slot[t], m), eq(nb[slot[t]], t)),
            implies(ge(slot[t], m), conj(eq(m, k), le(dist[k - 1], wfun(t)))))))),
    ] + ([] if not stable else [
        # tie policy of the strict bubble: equally distant samples stay in index order, and a sample outside the full
        # buffer is lexicographically after the last entry in (distance, index)
        ("tie_stable", forall(0, m, lambda r, s: implies(conj(lt(r, s), eq(dist[r], dist[s])), lt(nb[r], nb[s])))),
        ("tie_outside_after", forall(0, j_bound, lambda t: implies(conj(ok(t), ge(slot[t], m), eq(dist[k - 1], wfun(t))),
                                                               lt(nb[k - 1], t)))),
    ])


def buffer_inv(v, old, j_bound, m):
    return buffer_clauses(length(v.self.nodes), v.k, v.distances, v.neighbours_idx, v.g_slot, m, j_bound,
                          lambda t: WS(v, v.i, t), v.i)


def bubble_clauses(k, c, dist, nb, d0, nb0, new_index, w_expected, strict=False):
    """insertion step relative to the buffer at the start of the bubble (d0, nb0): the new pair travels down"""
    w = d0[k]
    return [
        ("c", conj(le(0, c), le(c, k))),
        ("new", conj(eq(w, w_expected), eq(nb0[k], new_index), eq(dist[c], w), eq(nb[c], new_index))),
        ("below", forall(0, c, lambda r: conj(eq(dist[r], d0[r]), eq(nb[r], nb0[r])))),
        ("shifted", forall(c + 1, k + 1, lambda r: conj(eq(dist[r], d0[r - 1]), eq(nb[r], nb0[r - 1]), le(w, dist[r])))),
    ] + ([("tie_shifted_strict", forall(c + 1, k + 1, lambda r: lt(w, dist[r])))] if strict else [])


def ca_scan(v, old, le_):
    """loop over j: samples < j have been offered"""
    sg = v.self
    n = length(sg.nodes)
    i, j = v.i, v.j
    cnt = ite(lt(i, j), j - 1, j)
    return ca_outer(v, old, le_) + [
        ("i", conj(le(0, i), lt(i, n))),
        ("count", eq(v.g_m, vmin(v.k, cnt))),
    ] + buffer_inv(v, old, j, v.g_m)


def ca_bubble(v, old, le_):
    """insertion step: relative to the buffer at the start of the bubble (le_), the new pair travels down"""
    sg = v.self
    n = length(sg.nodes)
    i, j, k, c = v.i, v.j, v.k, v.cur_k
    dist, nb = v.distances, v.neighbours_idx
    d0, nb0 = le_.distances, le_.neighbours_idx
    w = d0[k]
    cnt = ite(lt(i, j), j - 1, j)
    out = ca_outer(v, old, le_) + [
        ("i", conj(le(0, i), lt(i, n), le(0, j), lt(j, n), ne(j, i))),
        ("count", eq(v.g_m, vmin(k, cnt))),
        ("c", conj(le(0, c), le(c, k))),
        ("new", conj(eq(w, WS(v, i, j)), eq(nb0[k], j), eq(dist[c], w), eq(nb[c], j))),
        ("below", forall(0, c, lambda r: conj(eq(dist[r], d0[r]), eq(nb[r], nb0[r])))),
        ("shifted", forall(c + 1, k + 1, lambda r: conj(eq(dist[r], d0[r - 1]), eq(nb[r], nb0[r - 1]), le(w, dist[r])))),
        ("slot_same", forall(0, n, lambda t: eq(v.g_slot[t], le_.g_slot[t]))),
    ]
    # the buffer at the start of the bubble (snapshot) satisfied the scan invariant
    import types
    snap = types.SimpleNamespace(self=v.self, i=i, k=k, distances=d0, neighbours_idx=nb0, g_slot=le_.g_slot,
                                 pre_computed_distance=v.pre_computed_distance, pre_distances=v.pre_distances,
                                 distance_function=v.distance_function)
    out += [("snap_" + nm, t) for nm, t in buffer_inv(snap, old, j, v.g_m)]
    return out


def ca_collect(v, old, le_):
    """descending loop over l: adjacency(i) holds buffer slots l+1 .. m-1 in order"""
    sg = v.self
    N = sg.nodes
    n = length(N)
    i, k, l = v.i, v.k, v.l
    m = v.g_m
    dist, nb = v.distances, v.neighbours_idx
    adj = N[i].adjacency
    start = vmin(l + 1, m)
    E = le_.self.nodes
    return ca_static(v, old) + [
        # the samples before i were finished when this loop was entered and are not touched by it
        ("done_at_entry", forall(0, i, lambda x: node_arcs_done(le_, x, old))),
        ("others_frozen", forall(0, n, lambda x: implies(ne(x, i), conj(
            same_list(N[x].adjacency, E[x].adjacency),
            eq(N[x].radius, E[x].radius), eq(N[x].n_plateaus, E[x].n_plateaus))))),
        ("same_i", conj(eq(le_.i, i), eq(le_.k, k))),
        ("todo", forall(i + 1, n, lambda x: eq(length(N[x].adjacency), 0))),
        ("i", conj(le(0, i), lt(i, n))),
        ("count", eq(m, kmin(k, n))),
    ] + buffer_inv(v, old, n, m) + [
        ("adj_len", eq(length(adj), m - start)),
        ("adj_is_buffer", forall(0, m - start, lambda t: eq(adj[t], nb[start + t]))),
        ("radius", eq(N[i].radius, ite(gt(m, start), dist[m - 1], 0))),
        ("plateaus", eq(N[i].n_plateaus, 0)),
        ("md_upper", forall(0, i, lambda x: forall(0, length(N[x].adjacency), lambda t: conj(
            le(WS(v, x, N[x].adjacency[t]), v.max_distances[t]), le(WS(v, x, N[x].adjacency[t]), sg.density))))),
        ("md_upper_i", forall(start, m, lambda r: conj(le(dist[r], v.max_distances[r]), le(dist[r], sg.density)))),
        ("md_attained", forall(0, k, lambda r: conj(ge(v.max_distances[r], 0), disj(
            eq(v.max_distances[r], 0),
            conj(le(0, v.g_mdw[r]), lt(v.g_mdw[r], i), lt(r, length(N[v.g_mdw[r]].adjacency)),
                 eq(v.max_distances[r], WS(v, v.g_mdw[r], N[v.g_mdw[r]].adjacency[r]))),
            conj(eq(v.g_mdw[r], i), le(start, r), lt(r, m), eq(v.max_distances[r], dist[r])))))),
        ("density_attained", conj(ge(sg.density, old.self.density), disj(
            eq(sg.density, old.self.density),
            conj(le(0, v.g_dx), lt(v.g_dx, i), le(0, v.g_dt), lt(v.g_dt, length(N[v.g_dx].adjacency)),
                 eq(sg.density, WS(v, v.g_dx, N[v.g_dx].adjacency[v.g_dt]))),
            conj(eq(v.g_dx, i), le(start, v.g_dt), lt(v.g_dt, m), eq(sg.density, dist[v.g_dt]))))),
    ]


def ca_ensures(v, old, result):
    sg = v.self
    N = sg.nodes
    n = length(N)
    k = v.k
    if MODE.kind == "sym":
        mdw = v.ghost("g_mdw", "list[int]")
        dx, dt = v.ghost("g_dx", "int"), v.ghost("g_dt", "int")
    bound_before = None
    out = [
        ("n", eq(n, length(old.self.nodes))),
        ("per_sample", forall(0, n, lambda x: node_arcs_done(v, x, old))),
        ("md_len", eq(length(result), k)),
        ("md_upper", forall(0, n, lambda x: forall(0, length(N[x].adjacency), lambda t:
                                                  le(WS(v, x, N[x].adjacency[t]), result[t])))),
    ]
    if MODE.kind == "sym":
        out += [
            ("md_attained", forall(0, k, lambda r: conj(ge(result[r], 0), disj(
                eq(result[r], 0),
                conj(le(0, mdw[r]), lt(mdw[r], n), lt(r, length(N[mdw[r]].adjacency)),
                     eq(result[r], WS(v, mdw[r], N[mdw[r]].adjacency[r]))))))),
            # density bound = max(old bound, largest neighbour distance), replaced by 1 when below 1e-5
            ("density_bound", exists(0, 1, lambda _z: True) if False else conj(
                gt(sg.density, 0),
                disj(
                    conj(eq(sg.density, 1),
                         forall(0, n, lambda x: forall(0, length(N[x].adjacency),
                                                       lambda t: lt(WS(v, x, N[x].adjacency[t]), 0.00001))),
                         lt(old.self.density, 0.00001)),
                    conj(ge(sg.density, 0.00001), ge(sg.density, old.self.density),
                         forall(0, n, lambda x: forall(0, length(N[x].adjacency),
                                                       lambda t: le(WS(v, x, N[x].adjacency[t]), sg.density))),
                         disj(eq(sg.density, old.self.density),
                              conj(le(0, dx), lt(dx, n), le(0, dt), lt(dt, length(N[dx].adjacency)),
                                   eq(sg.density, WS(v, dx, N[dx].adjacency[dt])))))))),
        ]
    return out


contract(KG + "create_arcs",
         params={"self": "obj:KNNSubgraph", "k": "int", "distance_function": "fn", "pre_computed_distance": "bool",
                 "pre_distances": "matrix", "return": "list[real]"},
         props=["C12", "C13", "C14", "C16"], split=True,
         locals_types={"neighbours_idx": "list[int]"},
         requires=ca_requires, ensures=ca_ensures,
         modifies=["self.nodes.adjacency", "self.nodes.radius", "self.nodes.n_plateaus", "self.density"],
         ghost=[("after:max_distances = np.zeros(k)",
                 "g_mdw = [0 for _ in range(k)]\ng_dx = 0\ng_dt = 0\ng_m = 0\ng_slot = [k for _ in range(self.n_nodes)]"),
                ("after:distances.fill(c.FLOAT_MAX)", "g_m = 0\ng_slot = [k for _ in range(self.n_nodes)]"),
                ("after:loop2",
                 "g_slot = [(cur_k if t == j else (min(g_slot[t] + 1, k) if g_slot[t] >= cur_k else g_slot[t])) "
                 "for t in range(self.n_nodes)]\ng_m = min(g_m + 1, k)"),
                ("after:self.density = distances[l]", "g_dx = i\ng_dt = l"),
                ("after:max_distances[l] = distances[l]", "g_mdw[l] = i")],
         hints=[("after:loop3", lambda v, old: [
             ("earlier_done", forall(0, v.i, lambda x: node_arcs_done(v, x, old))),
             ("slots", forall(0, length(v.self.nodes), lambda t: implies(
                 conj(ne(t, v.i), lt(v.g_slot[t], v.g_m)),
                 conj(le(0, v.g_slot[t]), eq(v.self.nodes[v.i].adjacency[v.g_slot[t]], t))),
                 pats=lambda t: [v.g_slot[t], v.self.nodes[t].idx, v.self.nodes[t].features])),
             ("not_slotted_far", forall(0, length(v.self.nodes), lambda t: implies(
                 conj(ne(t, v.i), ge(v.g_slot[t], v.g_m)),
                 forall(0, v.g_m, lambda r: le(v.distances[r], WS(v, v.i, t)))),
                 pats=lambda t: [v.g_slot[t], v.self.nodes[t].idx, v.self.nodes[t].features])),
             ] + [("this_" + nm, t) for nm, t in node_arcs_parts(v, v.i, old)])],
         loops=[LoopSpec("for", var="i", inv=ca_outer),
                LoopSpec("for", var="j", inv=ca_scan),
                LoopSpec("while", inv=ca_bubble),
                LoopSpec("for", var="l", inv=ca_collect)])


# ------------------------------------------------------------------ calculate_pdf

def exp_axioms():
    """external contract of exp used here: positive, and at most 1 for non-positive arguments"""
    if MODE.kind != "sym":
        return True
    import z3
    from pyvc.engine import EXP
    u = z3.Real("exp_u")
    return z3.ForAll([u], z3.And(EXP(u) > 0, z3.Implies(u <= 0, EXP(u) <= 1)), patterns=[EXP(u)])


def pdf_const(old):
    return 2 * old.self.density / 9


def PSf(v):
    return v.ghostfn("PSUM", ["int", "int"], "real")


def pdf_defs(v, old=None):
    """PSUM(x, t) = sum over r < t of exp(-W(x, adj_x[r]) / constant)   (primitive recursion on t)"""
    import z3
    from pyvc.engine import EXP
    o = old if old is not None else v
    PS = PSf(v)
    sg = v.self
    c = 2 * o.self.density / 9
    x, t = z3.Ints("ps_x ps_t")
    adj = sg.nodes[x].adjacency
    return [("PSUM_def", z3.ForAll([x, t], z3.And(
        PS(x, 0) == 0,
        z3.Implies(t >= 0, PS(x, t + 1) == PS(x, t) + EXP(-WS(v, x, adj[t]) / c))),
        patterns=[PS(x, t + 1), z3.MultiPattern(PS(x, t), adj[t])]))]


def pdf_value(v, old, x):
    return PSf(v)(x, v.n_neighbours) / (v.n_neighbours + 1)


def cp_requires(v):
    sg = v.self
    n = length(sg.nodes)
    k = v.n_neighbours
    return [("k", ge(k, 1)), ("n", ge(n, 1)), ("metric", metric_hyp(symmetric=False)), ("exp", exp_axioms()),
            ("density_positive", gt(sg.density, 0)),
            ("arcs", forall(0, n, lambda x: conj(ge(length(sg.nodes[x].adjacency), k), ge(sg.nodes[x].idx, 0),
                                                 forall(0, length(sg.nodes[x].adjacency), lambda t: conj(
                                                     le(0, sg.nodes[x].adjacency[t]), lt(sg.nodes[x].adjacency[t], n))))))]


def cp_static(v, old):
    sg = v.self
    n = length(sg.nodes)
    k = v.n_neighbours
    return [
        ("shape", conj(ge(k, 1), ge(n, 1), eq(n, length(old.self.nodes)), eq(length(v.pdf), n))),
        ("constant", conj(eq(sg.constant, pdf_const(old)), gt(sg.constant, 0), eq(sg.density, old.self.density))),
        ("arcs", forall(0, n, lambda x: conj(ge(length(sg.nodes[x].adjacency), k), ge(sg.nodes[x].idx, 0),
                                             forall(0, length(sg.nodes[x].adjacency), lambda t: conj(
                                                 le(0, sg.nodes[x].adjacency[t]), lt(sg.nodes[x].adjacency[t], n)))))),
    ]


def cp_est(v, old, upto):
    """pdf[x] for x < upto is the estimate; min/max tracking"""
    sg = v.self
    k = v.n_neighbours
    return [
        ("estimates", forall(0, upto, lambda x: conj(eq(v.pdf[x], pdf_value(v, old, x)), ge(v.pdf[x], 0), lt(v.pdf[x], 1),
                                                      le(sg.min_density, v.pdf[x]), le(v.pdf[x], sg.max_density)))),
        ("extremes", disj(conj(eq(upto, 0), eq(sg.min_density, FLOAT_MAX), eq(sg.max_density, -FLOAT_MAX)),
                          conj(le(0, v.g_imin), lt(v.g_imin, upto), eq(sg.min_density, v.pdf[v.g_imin]),
                               le(0, v.g_imax), lt(v.g_imax, upto), eq(sg.max_density, v.pdf[v.g_imax])))),
    ]


def cp_outer(v, old, le_):
    return cp_static(v, old) + cp_est(v, old, v.i)


def cp_inner(v, old, le_):
    sg = v.self
    i, kk = v.i, v.k
    return cp_static(v, old) + cp_est(v, old, i) + [
        ("i", conj(le(0, i), lt(i, length(sg.nodes)))),
        ("partial", conj(eq(v.pdf[i], PSf(v)(i, kk)), ge(v.pdf[i], 0), le(v.pdf[i], kk), eq(v.n_pdf, kk + 1))),
    ]


def mapped(v, old, x):
    sg = v.self
    lo, hi = sg.min_density, sg.max_density
    p = pdf_value(v, old, x)
    return ite(eq(lo, hi), MAX_DENSITY, (MAX_DENSITY - 1) * (p - lo) / (hi - lo) + 1)


def cp_final(v, old, upto):
    sg = v.self
    n = length(sg.nodes)
    return [
        ("all_estimates", forall(0, n, lambda x: conj(eq(v.pdf[x], pdf_value(v, old, x)), ge(v.pdf[x], 0), lt(v.pdf[x], 1),
                                                       le(sg.min_density, v.pdf[x]), le(v.pdf[x], sg.max_density)))),
        ("extremes", conj(le(0, v.g_imin), lt(v.g_imin, n), eq(sg.min_density, v.pdf[v.g_imin]),
                          le(0, v.g_imax), lt(v.g_imax, n), eq(sg.max_density, v.pdf[v.g_imax]))),
        ("mapped", forall(0, upto, lambda x: conj(eq(sg.nodes[x].density, mapped(v, old, x)),
                                                  eq(sg.nodes[x].cost, sg.nodes[x].density - 1)))),
    ]


def cp_ensures(v, old, result):
    sg = v.self
    n = length(sg.nodes)
    N = sg.nodes
    if MODE.kind != "sym":
        return []
    imin, imax = v.ghost("g_imin", "int"), v.ghost("g_imax", "int")
    return pdf_defs(v, old) + [
        ("constant", eq(sg.constant, pdf_const(old))),
        ("min_is_min", conj(forall(0, n, lambda x: le(sg.min_density, pdf_value(v, old, x))),
                            le(0, imin), lt(imin, n), eq(sg.min_density, pdf_value(v, old, imin)))),
        ("max_is_max", conj(forall(0, n, lambda x: le(pdf_value(v, old, x), sg.max_density)),
                            le(0, imax), lt(imax, n), eq(sg.max_density, pdf_value(v, old, imax)))),
        ("mapped", forall(0, n, lambda x: conj(eq(N[x].density, mapped(v, old, x)), eq(N[x].cost, N[x].density - 1)))),
        ("range", forall(0, n, lambda x: conj(le(1, N[x].density), le(N[x].density, MAX_DENSITY)))),
        ("raw_range", conj(ge(sg.min_density, 0), lt(sg.max_density, 1), le(sg.min_density, sg.max_density),
                           gt(sg.constant, 0))),
    ]


contract(KG + "calculate_pdf",
         params={"self": "obj:KNNSubgraph", "n_neighbours": "int", "distance_function": "fn",
                 "pre_computed_distance": "bool", "pre_distances": "matrix"},
         props=["C12", "C13", "C14", "C16"],
         requires=cp_requires, ensures=cp_ensures, defs=pdf_defs,
         modifies=["self.constant", "self.min_density", "self.max_density", "self.nodes.density", "self.nodes.cost"],
         ghost=[("after:pdf = np.zeros(self.n_nodes)", "g_imin = 0\ng_imax = 0"),
                ("after:self.min_density = pdf[i]", "g_imin = i"),
                ("after:self.max_density = pdf[i]", "g_imax = i")],
         loops=[LoopSpec("for", var="i", inv=cp_outer),
                LoopSpec("for", var="k", inv=cp_inner),
                LoopSpec("for", var="i", inv=lambda v, old, le_: cp_static(v, old) + cp_final(v, old, v.i) + [
                    ("equal", eq(v.self.min_density, v.self.max_density))]),
                LoopSpec("for", var="i", inv=lambda v, old, le_: cp_static(v, old) + cp_final(v, old, v.i) + [
                    ("distinct", ne(v.self.min_density, v.self.max_density))])])


# ------------------------------------------------------------------ eliminate_maxima_height / destroy_arcs

contract(KG + "eliminate_maxima_height", params={"self": "obj:KNNSubgraph", "height": "real"}, props=["C12"],
         ensures=lambda v, old, result: [
             ("positive_height", implies(gt(v.height, 0), forall(0, length(v.self.nodes), lambda x: eq(
                 v.self.nodes[x].cost, vmax(v.self.nodes[x].density - v.height, 0))))),
             ("other_height", implies(le(v.height, 0), forall(0, length(v.self.nodes), lambda x: eq(
                 v.self.nodes[x].cost, old.self.nodes[x].cost))))],
         modifies=["self.nodes.cost"],
         loops=[LoopSpec("for", var="i", inv=lambda v, old, le_: [
             ("h", gt(v.height, 0)),
             ("done", forall(0, v.i, lambda x: eq(v.self.nodes[x].cost, vmax(v.self.nodes[x].density - v.height, 0)))),
             ("density_same", forall(0, length(v.self.nodes), lambda x: eq(v.self.nodes[x].density,
                                                                           old.self.nodes[x].density)))])])

contract("opfython.core.subgraph.Subgraph.destroy_arcs", params={"self": "obj:Subgraph"}, props=["C12", "C16"],
         ensures=lambda v, old, result: [
             ("fresh", forall(0, length(v.self.nodes), lambda x: conj(eq(length(v.self.nodes[x].adjacency), 0),
                                                                      eq(v.self.nodes[x].n_plateaus, 0))))],
         modifies=["self.nodes.adjacency", "self.nodes.n_plateaus"],
         loops=[LoopSpec("for", var="i", inv=lambda v, old, le_: [
             ("done", forall(0, v.i, lambda x: conj(eq(length(v.self.nodes[x].adjacency), 0),
                                                    eq(v.self.nodes[x].n_plateaus, 0))))])])
