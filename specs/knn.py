"""Contracts for the k-NN based models: density clustering (C13, C04-KNN half), arcs/pdf (C12),
prediction (C14), choice of k (C16)."""
from pyvc.contracts import contract, schema, lemma, LoopSpec
from pyvc.logic import (conj, disj, neg, implies, iff, ite, eq, ne, lt, le, gt, ge, between, forall, exists,
                        length, vmax, vmin, MODE)
from specs.graph import *  # noqa: F401,F403
from specs.graph import metric_hyp
from specs import heap as HP

schema("KNNSupervisedOPF", base="OPF", max_k="int")
schema("UnsupervisedOPF", base="OPF", min_k="int", max_k="int")
# the models' `subgraph` is a KNNSubgraph
from pyvc.contracts import SCHEMAS  # noqa: E402
SCHEMAS["KNNSupervisedOPF"]["subgraph"] = "obj:KNNSubgraph"
SCHEMAS["UnsupervisedOPF"]["subgraph"] = "obj:KNNSubgraph"

KS = "opfython.models.knn_supervised.KNNSupervisedOPF."
US = "opfython.models.unsupervised.UnsupervisedOPF."


# ------------------------------------------------------------------ shared predicates

def adj_valid(sg):
    n = length(sg.nodes)
    return forall(0, n, lambda x: forall(0, length(sg.nodes[x].adjacency),
                                         lambda t: conj(le(0, sg.nodes[x].adjacency[t]),
                                                        lt(sg.nodes[x].adjacency[t], n))))


def density_ready(sg):
    """what calculate_pdf leaves behind: 1 <= density <= MAX_DENSITY, cost = density - 1"""
    n = length(sg.nodes)
    return forall(0, n, lambda x: conj(le(1, sg.nodes[x].density), le(sg.nodes[x].density, MAX_DENSITY),
                                       eq(sg.nodes[x].cost, sg.nodes[x].density - 1),
                                       ge(sg.nodes[x].label, 0)))


def cl_requires(v):
    sg = v.self.subgraph
    # NB: the conquest order list is never reset by the k-NN models: every clustering APPENDS its n removals
    return [("n", ge(length(sg.nodes), 1)), ("adj_valid", adj_valid(sg)), ("density_ready", density_ready(sg)),
            ("ord_len", ge(length(sg.idx_nodes), 0))]


def ord_same(v, old):
    from pyvc.logic import same_list
    return ("ord_same", same_list(v.self.subgraph.idx_nodes, old.self.subgraph.idx_nodes))


def cl_static(v, old, unsup=False):
    sg, o = v.self.subgraph, old.self.subgraph
    n = length(sg.nodes)
    N = sg.nodes
    out = [
        ("n", conj(eq(n, length(o.nodes)), ge(n, 1))),
        ("static", forall(0, n, lambda x: conj(eq(N[x].density, o.nodes[x].density), eq(N[x].label, o.nodes[x].label),
                                               le(1, N[x].density), le(N[x].density, MAX_DENSITY),
                                               ge(N[x].label, 0)))),
        ("adj_valid", adj_valid(sg)),
    ]
    return out


def forest_inv(v, old, unsup=False):
    """K0-K7 (DESIGN C13) for the competition loop"""
    sg = v.self.subgraph
    h = v.h
    n = length(sg.nodes)
    N = sg.nodes
    D, col = h.cost, h.color
    ordl = sg.idx_nodes
    L0 = length(old.self.subgraph.idx_nodes)
    mlen = length(ordl) - L0
    rank = v.g_rank
    lab = (lambda x: N[x].cluster_label) if unsup else (lambda x: N[x].predicted_label)
    out = cl_static(v, old, unsup) + [
        ("K0_heap", conj(HP.inv(h), eq(h.size, n), eq(h.policy, "max"),
                         forall(0, n, lambda x: ne(col[x], WHITE)))),
        ("K1_final", forall(0, n, lambda b: implies(eq(col[b], BLACK), eq(N[b].cost, D[b])))),
        ("K2_pred", forall(0, n, lambda x: implies(ne(N[x].pred, NIL), conj(
            le(0, N[x].pred), lt(N[x].pred, n), ne(N[x].pred, x), eq(col[N[x].pred], BLACK),
            eq(D[x], vmin(D[N[x].pred], N[x].density)), gt(D[x], N[x].density - 1),
            eq(N[x].root, N[N[x].pred].root), eq(lab(x), lab(N[x].pred)),
            le(0, v.g_at[x]), lt(v.g_at[x], length(N[N[x].pred].adjacency)),
            eq(N[N[x].pred].adjacency[v.g_at[x]], x))))),
        ("K3_free", forall(0, n, lambda x: implies(conj(eq(N[x].pred, NIL), ne(col[x], BLACK)),
                                                   conj(eq(D[x], N[x].density - 1), eq(N[x].root, x))))),
        ("K4_root", forall(0, n, lambda x: implies(conj(eq(N[x].pred, NIL), eq(col[x], BLACK)),
                                                   conj(eq(D[x], N[x].density), eq(N[x].root, x))))),
        ("K5_rootptr", forall(0, n, lambda x: conj(
            le(0, N[x].root), lt(N[x].root, n),
            implies(disj(eq(col[x], BLACK), ne(N[x].pred, NIL)),
                    conj(eq(col[N[x].root], BLACK), eq(N[N[x].root].pred, NIL), le(D[x], D[N[x].root])))))),
        # positions are ABSOLUTE positions in the ever growing conquest-order list (this run owns L0 .. len-1)
        ("K6_ord", conj(le(0, mlen), ge(L0, 0), eq(length(rank), n), eq(length(v.g_at), n),
                        forall(L0, length(ordl), lambda a: conj(le(0, ordl[a]), lt(ordl[a], n),
                                                                eq(col[ordl[a]], BLACK), eq(rank[ordl[a]], a))),
                        forall(0, n, lambda b: implies(eq(col[b], BLACK),
                                                       conj(le(L0, rank[b]), lt(rank[b], length(ordl)),
                                                            eq(ordl[rank[b]], b)))))),
        ("K6_rank", forall(0, n, lambda b: implies(conj(eq(col[b], BLACK), ne(N[b].pred, NIL)),
                                                   lt(rank[N[b].pred], rank[b])))),
        ("K6_older", conj(ge(length(ordl), L0),
                          forall(0, L0, lambda r: eq(ordl[r], old.self.subgraph.idx_nodes[r])))),
    ]
    if unsup:
        l = v.l
        ro = v.g_rootof
        out += [
            ("K8_clusters", conj(ge(l, 0), eq(length(ro), n),
                                 forall(0, l, lambda j: conj(le(0, ro[j]), lt(ro[j], n), eq(col[ro[j]], BLACK),
                                                             eq(N[ro[j]].pred, NIL), eq(N[ro[j]].cluster_label, j))),
                                 forall(0, n, lambda r: implies(conj(eq(col[r], BLACK), eq(N[r].pred, NIL)),
                                                                conj(le(0, N[r].cluster_label), lt(N[r].cluster_label, l),
                                                                     eq(ro[N[r].cluster_label], r)))),
                                 forall(0, n, lambda x: ge(N[x].cluster_label, 0)),
                                 forall(0, n, lambda x: implies(disj(eq(col[x], BLACK), ne(N[x].pred, NIL)),
                                                                lt(N[x].cluster_label, l))))),
        ]
    else:
        out += [
            ("K4_label", forall(0, n, lambda x: implies(conj(eq(N[x].pred, NIL), eq(col[x], BLACK)),
                                                        eq(N[x].predicted_label, N[x].label)))),
            ("K7_force", implies(v.force_prototype,
                                 forall(0, n, lambda x: implies(disj(eq(col[x], BLACK), ne(N[x].pred, NIL)),
                                                                eq(N[x].predicted_label, N[x].label))))),
            ("plabel_nonneg", forall(0, n, lambda x: ge(N[x].predicted_label, 0))),
        ]
    return out


def forest_inner(v, old, unsup=False):
    sg, h = v.self.subgraph, v.h
    n = length(sg.nodes)
    ordl = sg.idx_nodes
    p = v.p
    return forest_inv(v, old, unsup) + [
        ("p", conj(le(0, p), lt(p, n), eq(h.color[p], BLACK), ge(length(ordl), 1), eq(ordl[length(ordl) - 1], p),
                   gt(length(ordl), length(old.self.subgraph.idx_nodes)))),
    ]


def forest_post(v, old, unsup=False):
    """C13's statement over the final node fields"""
    sg = v.self.subgraph
    n = length(sg.nodes)
    N = sg.nodes
    ordl = sg.idx_nodes
    L0 = length(old.self.subgraph.idx_nodes)
    lab = (lambda x: N[x].cluster_label) if unsup else (lambda x: N[x].predicted_label)
    out = [
        ("n", eq(n, length(old.self.subgraph.nodes))),
        ("roots", forall(0, n, lambda x: implies(eq(N[x].pred, NIL),
                                                 conj(eq(N[x].cost, N[x].density), eq(N[x].root, x))))),
        ("links", forall(0, n, lambda x: implies(ne(N[x].pred, NIL), conj(
            le(0, N[x].pred), lt(N[x].pred, n), ne(N[x].pred, x),
            eq(N[x].cost, vmin(N[N[x].pred].cost, N[x].density)), gt(N[x].cost, N[x].density - 1),
            eq(N[x].root, N[N[x].pred].root), eq(lab(x), lab(N[x].pred)),
            exists(0, length(N[N[x].pred].adjacency), lambda t: eq(N[N[x].pred].adjacency[t], x)))))),
        ("root_is_root", forall(0, n, lambda x: conj(le(0, N[x].root), lt(N[x].root, n),
                                                     eq(N[N[x].root].pred, NIL),
                                                     lt(N[x].density - 1, N[N[x].root].density)))),
        # the n removals of THIS clustering are the last n entries of the (ever growing) conquest order list
        ("acyclic", forall(L0, L0 + n, lambda r, s: implies(conj(ne(N[ordl[r]].pred, NIL), eq(ordl[s], N[ordl[r]].pred)),
                                                            lt(s, r)))),
        ("perm", conj(eq(length(ordl), L0 + n),
                      forall(L0, L0 + n, lambda r: conj(le(0, ordl[r]), lt(ordl[r], n))),
                      forall(L0, L0 + n, lambda r, s: implies(ne(r, s), ne(ordl[r], ordl[s]))))),
        ("older_order_kept", forall(0, L0, lambda r: eq(ordl[r], old.self.subgraph.idx_nodes[r]))),
        ("density_same", forall(0, n, lambda x: eq(N[x].density, old.self.subgraph.nodes[x].density))),
    ]
    return out


# ------------------------------------------------------------------ KNNSupervisedOPF._clustering

def knn_sym_inv(v, old, le_):
    return cl_static(v, old) + [("cost_same", density_ready(v.self.subgraph)), ord_same(v, old)]


def knn_init_inv(v, old, le_):
    sg, h = v.self.subgraph, v.h
    n = length(sg.nodes)
    N = sg.nodes
    i = v.i
    return cl_static(v, old) + [
        ("heap", conj(HP.inv(h), eq(h.size, n), eq(h.policy, "max"), eq(h.last, i - 1))),
        ("done", forall(0, i, lambda x: conj(eq(h.color[x], GRAY), eq(h.cost[x], N[x].density - 1),
                                             eq(N[x].pred, NIL), eq(N[x].root, x)))),
        ("todo", forall(i, n, lambda x: eq(h.color[x], WHITE))),
        ("cost_same", density_ready(sg)),
        ord_same(v, old),
        ("plabel_nonneg", forall(0, n, lambda x: ge(N[x].predicted_label, 0))),
    ]


GHOST_CL = [
    ("after:h = Heap(size=self.subgraph.n_nodes, policy='max')",
     "g_rank = [0 for _ in range(self.subgraph.n_nodes)]\ng_at = [0 for _ in range(self.subgraph.n_nodes)]"),
    ("after:self.subgraph.idx_nodes.append(p)", "g_rank[p] = len(self.subgraph.idx_nodes) - 1"),
    ("entry", "g_L0 = len(self.subgraph.idx_nodes)"),
]

contract(KS + "_clustering", params={"self": "obj:KNNSupervisedOPF", "force_prototype": "bool"},
         props=["C13", "C04"], split=True,
         requires=lambda v: cl_requires(v) + [
             ("plabel_nonneg", forall(0, length(v.self.subgraph.nodes),
                                      lambda x: ge(v.self.subgraph.nodes[x].predicted_label, 0)))],
         ensures=lambda v, old, result: forest_post(v, old) + [
             ("root_label", forall(0, length(v.self.subgraph.nodes), lambda x: implies(
                 eq(v.self.subgraph.nodes[x].pred, NIL),
                 eq(v.self.subgraph.nodes[x].predicted_label, v.self.subgraph.nodes[x].label)))),
             ("C04_own_label", implies(v.force_prototype, forall(0, length(v.self.subgraph.nodes), lambda x: eq(
                 v.self.subgraph.nodes[x].predicted_label, v.self.subgraph.nodes[x].label)))),
             ("plabel_nonneg", forall(0, length(v.self.subgraph.nodes),
                                      lambda x: ge(v.self.subgraph.nodes[x].predicted_label, 0))),
             ("costs_nonneg", forall(0, length(v.self.subgraph.nodes), lambda x: ge(v.self.subgraph.nodes[x].cost, 0))),
             ("adj_valid", adj_valid(v.self.subgraph)),
         ],
         modifies=["self.subgraph.nodes.adjacency", "self.subgraph.nodes.pred", "self.subgraph.nodes.root",
                   "self.subgraph.nodes.cost", "self.subgraph.nodes.predicted_label", "self.subgraph.idx_nodes"],
         ghost=GHOST_CL + [("after:self.subgraph.nodes[q].pred = p", "g_at[q] = loop5_k - 1")],
         hints=[("after:loop4", lambda v, old: [
             ("all_black", forall(0, length(v.self.subgraph.nodes), lambda x: eq(v.h.color[x], BLACK)))])],
         lemmas=[("before:h.cost[i] = self.subgraph.nodes[i].cost", "cost_write", lambda v: {"h": v.h, "x": v.i}),
                 ("before:h.cost[p] = self.subgraph.nodes[p].density", "cost_write", lambda v: {"h": v.h, "x": v.p}),
                 ("after:loop4", "inj_card_off", lambda v: {"f": v.self.subgraph.idx_nodes, "g": v.g_rank,
                                                           "a": length(v.self.subgraph.idx_nodes) - v.g_L0,
                                                           "b": length(v.self.subgraph.nodes), "off": v.g_L0}),
                 ("after:loop4", "inj_card_goff", lambda v: {"f": v.g_rank, "g": v.self.subgraph.idx_nodes,
                                                            "a": length(v.self.subgraph.nodes),
                                                            "b": length(v.self.subgraph.idx_nodes) - v.g_L0,
                                                            "off": v.g_L0})],
         loops=[LoopSpec("for", var="i", inv=knn_sym_inv),
                LoopSpec("for", var="j", inv=lambda v, old, le_: knn_sym_inv(v, old, le_) + [
                    ("i", conj(le(0, v.i), lt(v.i, length(v.self.subgraph.nodes))))]),
                LoopSpec("for", var="l", inv=lambda v, old, le_: knn_sym_inv(v, old, le_) + [
                    ("i", conj(le(0, v.i), lt(v.i, length(v.self.subgraph.nodes)))),
                    ("j", conj(le(0, v.j), lt(v.j, length(v.self.subgraph.nodes))))]),
                LoopSpec("for", var="i", inv=knn_init_inv),
                LoopSpec("while", inv=lambda v, old, le_: forest_inv(v, old)),
                LoopSpec("for", var="q", inv=lambda v, old, le_: forest_inner(v, old))])


# ------------------------------------------------------------------ UnsupervisedOPF._clustering

def adj_long(sg, k):
    """every neighbour list is at least n_plateaus + k long (so the index ranges of the code are in bounds)"""
    n = length(sg.nodes)
    return forall(0, n, lambda x: conj(ge(sg.nodes[x].n_plateaus, 0),
                                       ge(length(sg.nodes[x].adjacency), sg.nodes[x].n_plateaus + k)))


def un_static(v, old):
    sg = v.self.subgraph
    n = length(sg.nodes)
    return cl_static(v, old, True) + [
        ("k", conj(ge(v.n_neighbours, 1))),
        ("adj_long", adj_long(sg, v.n_neighbours)),
        ("adj_balance", forall(0, n, lambda x: eq(length(sg.nodes[x].adjacency) - sg.nodes[x].n_plateaus,
                                                  length(old.self.subgraph.nodes[x].adjacency)
                                                  - old.self.subgraph.nodes[x].n_plateaus))),
        ("cluster_nonneg", forall(0, n, lambda x: ge(sg.nodes[x].cluster_label, 0))),
    ]


def un_sym_inv(v, old, le_):
    return un_static(v, old) + [("cost_same", density_ready(v.self.subgraph)), ord_same(v, old)]


def un_init_inv(v, old, le_):
    sg, h = v.self.subgraph, v.h
    n = length(sg.nodes)
    N = sg.nodes
    i = v.i
    return un_static(v, old) + [
        ("heap", conj(HP.inv(h), eq(h.size, n), eq(h.policy, "max"), eq(h.last, i - 1))),
        ("done", forall(0, i, lambda x: conj(eq(h.color[x], GRAY), eq(h.cost[x], N[x].density - 1),
                                             eq(N[x].pred, NIL), eq(N[x].root, x)))),
        ("todo", forall(i, n, lambda x: eq(h.color[x], WHITE))),
        ("cost_same", density_ready(sg)),
        ord_same(v, old),
    ]


def un_forest(v, old, le_):
    return forest_inv(v, old, True) + [
        ("k", ge(v.n_neighbours, 1)),
        ("adj_long", adj_long(v.self.subgraph, v.n_neighbours)),
        ("adj_balance", forall(0, length(v.self.subgraph.nodes), lambda x: eq(
            length(v.self.subgraph.nodes[x].adjacency) - v.self.subgraph.nodes[x].n_plateaus,
            length(old.self.subgraph.nodes[x].adjacency) - old.self.subgraph.nodes[x].n_plateaus))),
    ]


def un_inner(v, old, le_):
    sg = v.self.subgraph
    return forest_inner(v, old, True) + [
        ("k", ge(v.n_neighbours, 1)),
        ("adj_long", adj_long(sg, v.n_neighbours)),
        ("adj_balance", forall(0, length(sg.nodes), lambda x: eq(
            length(sg.nodes[x].adjacency) - sg.nodes[x].n_plateaus,
            length(old.self.subgraph.nodes[x].adjacency) - old.self.subgraph.nodes[x].n_plateaus))),
        ("n_adjacents", eq(v.n_adjacents, sg.nodes[v.p].n_plateaus + v.n_neighbours)),
    ]


def clusters_post(v, old):
    sg = v.self.subgraph
    n = length(sg.nodes)
    N = sg.nodes
    nc = sg.n_clusters
    if MODE.kind == "sym":
        ro = v.ghost("g_rootof", "list[int]")
        onto = forall(0, nc, lambda j: conj(le(0, ro[j]), lt(ro[j], n), eq(N[ro[j]].pred, NIL),
                                            eq(N[ro[j]].cluster_label, j)))
    else:
        onto = forall(0, nc, lambda j: exists(0, n, lambda r: conj(eq(N[r].pred, NIL), eq(N[r].cluster_label, j))))
    return [
        ("cluster_ids_in_range", forall(0, n, lambda r: implies(eq(N[r].pred, NIL),
                                                                conj(le(0, N[r].cluster_label), lt(N[r].cluster_label, nc))))),
        ("cluster_ids_distinct", forall(0, n, lambda r, s: implies(conj(eq(N[r].pred, NIL), eq(N[s].pred, NIL), ne(r, s)),
                                                                   ne(N[r].cluster_label, N[s].cluster_label)))),
        ("cluster_ids_onto", onto),
        ("every_sample_in_a_cluster", forall(0, n, lambda x: conj(le(0, N[x].cluster_label), lt(N[x].cluster_label, nc)))),
        ("n_clusters_le_n", conj(ge(nc, 0), le(nc, n))),
        ("lists_long_enough", adj_long(sg, v.n_neighbours)),
        ("adj_balance", forall(0, n, lambda x: eq(length(N[x].adjacency) - N[x].n_plateaus,
                                                  length(old.self.subgraph.nodes[x].adjacency)
                                                  - old.self.subgraph.nodes[x].n_plateaus))),
        ("adj_valid", adj_valid(sg)),
        ("costs_nonneg", forall(0, n, lambda x: ge(N[x].cost, 0))),
    ]


contract(US + "_clustering", params={"self": "obj:UnsupervisedOPF", "n_neighbours": "int"},
         props=["C13"], split=True,
         requires=lambda v: cl_requires(v) + [
             ("k", ge(v.n_neighbours, 1)),
             ("adj_long", adj_long(v.self.subgraph, v.n_neighbours)),
             ("cluster_nonneg", forall(0, length(v.self.subgraph.nodes),
                                       lambda x: ge(v.self.subgraph.nodes[x].cluster_label, 0)))],
         ensures=lambda v, old, result: forest_post(v, old, True) + clusters_post(v, old),
         modifies=["self.subgraph.nodes.adjacency", "self.subgraph.nodes.n_plateaus", "self.subgraph.nodes.pred",
                   "self.subgraph.nodes.root", "self.subgraph.nodes.cost", "self.subgraph.nodes.cluster_label",
                   "self.subgraph.idx_nodes", "self.subgraph.n_clusters"],
         ghost=GHOST_CL + [
             ("after:h = Heap(size=self.subgraph.n_nodes, policy='max')",
              "g_rootof = [0 for _ in range(self.subgraph.n_nodes)]"),
             ("after:self.subgraph.nodes[q].pred = p", "g_at[q] = k"),
             ("after:self.subgraph.nodes[p].cluster_label = l", "g_rootof[l] = p")],
         hints=[("after:loop4", lambda v, old: [
             ("all_black", forall(0, length(v.self.subgraph.nodes), lambda x: eq(v.h.color[x], BLACK)))])],
         lemmas=[("before:h.cost[i] = self.subgraph.nodes[i].cost", "cost_write", lambda v: {"h": v.h, "x": v.i}),
                 ("before:h.cost[p] = self.subgraph.nodes[p].density", "cost_write", lambda v: {"h": v.h, "x": v.p}),
                 ("after:loop4", "inj_card", lambda v: {"f": v.g_rootof, "g": v.self.subgraph.nodes.field("cluster_label"),
                                                       "a": v.l, "b": length(v.self.subgraph.nodes)}),
                 ("after:loop4", "inj_card_off", lambda v: {"f": v.self.subgraph.idx_nodes, "g": v.g_rank,
                                                           "a": length(v.self.subgraph.idx_nodes) - v.g_L0,
                                                           "b": length(v.self.subgraph.nodes), "off": v.g_L0}),
                 ("after:loop4", "inj_card_goff", lambda v: {"f": v.g_rank, "g": v.self.subgraph.idx_nodes,
                                                            "a": length(v.self.subgraph.nodes),
                                                            "b": length(v.self.subgraph.idx_nodes) - v.g_L0,
                                                            "off": v.g_L0})],
         loops=[LoopSpec("for", var="i", inv=un_sym_inv),
                LoopSpec("for", var="k", inv=lambda v, old, le_: un_sym_inv(v, old, le_) + [
                    ("i", conj(le(0, v.i), lt(v.i, length(v.self.subgraph.nodes))))]),
                LoopSpec("for", var="l", inv=lambda v, old, le_: un_sym_inv(v, old, le_) + [
                    ("i", conj(le(0, v.i), lt(v.i, length(v.self.subgraph.nodes)))),
                    ("j", conj(le(0, v.j), lt(v.j, length(v.self.subgraph.nodes))))]),
                LoopSpec("for", var="i", inv=un_init_inv),
                LoopSpec("while", inv=un_forest),
                LoopSpec("for", var="k", inv=un_inner)])


# ------------------------------------------------------------------ UnsupervisedOPF.propagate_labels

contract(US + "propagate_labels", params={"self": "obj:UnsupervisedOPF"}, props=["C13"],
         requires=lambda v: [("roots_valid", forall(0, length(v.self.subgraph.nodes), lambda x: conj(
             le(0, v.self.subgraph.nodes[x].root), lt(v.self.subgraph.nodes[x].root, length(v.self.subgraph.nodes)),
             ge(v.self.subgraph.nodes[x].label, 0))))],
         ensures=lambda v, old, result: [("root_label", forall(0, length(v.self.subgraph.nodes), lambda x: eq(
             v.self.subgraph.nodes[x].predicted_label, v.self.subgraph.nodes[v.self.subgraph.nodes[x].root].label)))],
         modifies=["self.subgraph.nodes.predicted_label"],
         loops=[LoopSpec("for", var="i", inv=lambda v, old, le_: [
             ("frame", forall(0, length(v.self.subgraph.nodes), lambda x: conj(
                 eq(v.self.subgraph.nodes[x].root, old.self.subgraph.nodes[x].root),
                 eq(v.self.subgraph.nodes[x].label, old.self.subgraph.nodes[x].label),
                 le(0, v.self.subgraph.nodes[x].root), lt(v.self.subgraph.nodes[x].root, length(v.self.subgraph.nodes)),
                 ge(v.self.subgraph.nodes[x].label, 0)))),
             ("n", eq(length(v.self.subgraph.nodes), length(old.self.subgraph.nodes))),
             ("done", forall(0, v.i, lambda x: eq(
                 v.self.subgraph.nodes[x].predicted_label,
                 v.self.subgraph.nodes[v.self.subgraph.nodes[x].root].label)))])])


# ------------------------------------------------------------------ C13's statement on the final state of a model

def forest_post_after(v, unsup):
    """the well-formedness clauses of C13 over the model's final node fields (no reference to a pre-state)"""
    sg = v.self.subgraph
    n = length(sg.nodes)
    N = sg.nodes
    lab = (lambda x: N[x].cluster_label) if unsup else (lambda x: N[x].predicted_label)
    return [
        ("C13_roots", forall(0, n, lambda x: implies(eq(N[x].pred, NIL), conj(eq(N[x].cost, N[x].density), eq(N[x].root, x))))),
        ("C13_links", forall(0, n, lambda x: implies(ne(N[x].pred, NIL), conj(
            le(0, N[x].pred), lt(N[x].pred, n), ne(N[x].pred, x),
            eq(N[x].cost, vmin(N[N[x].pred].cost, N[x].density)), gt(N[x].cost, N[x].density - 1),
            eq(N[x].root, N[N[x].pred].root), eq(lab(x), lab(N[x].pred)))))),
        ("C13_root_is_root", forall(0, n, lambda x: conj(le(0, N[x].root), lt(N[x].root, n), eq(N[N[x].root].pred, NIL),
                                                         lt(N[x].density - 1, N[N[x].root].density)))),
    ]


def clusters_post_after(v):
    sg = v.self.subgraph
    n = length(sg.nodes)
    N = sg.nodes
    nc = sg.n_clusters
    ro = v.ghost("g_rootof_final", "list[int]")
    return [
        ("C13_cluster_ids_in_range", forall(0, n, lambda r: implies(eq(N[r].pred, NIL), conj(le(0, N[r].cluster_label),
                                                                                             lt(N[r].cluster_label, nc))))),
        ("C13_cluster_ids_distinct", forall(0, n, lambda r, s: implies(conj(eq(N[r].pred, NIL), eq(N[s].pred, NIL), ne(r, s)),
                                                                       ne(N[r].cluster_label, N[s].cluster_label)))),
    ]
