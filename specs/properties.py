"""Which functions / lemmas / bounded harnesses decide which property (dependency closure, DESIGN §3)."""

HEAP_FUNCS = ["opfython.core.heap.Heap." + m for m in
              ("__init__", "is_full", "is_empty", "dad", "left_son", "right_son", "go_up", "go_down",
               "insert", "remove", "update")]
HEAP_LEMMAS = ["root_best", "pigeonhole", "full_all_gray", "cost_write"]

COMMON_TRUST = [
    "pyvc (this VC generator: /verif/pyvc) translates the Python AST faithfully for the subset it accepts "
    "(checked by seeded-edit self tests and by the run-time twin on the real code)",
    "z3 5.1.0 answers `unsat` only for unsatisfiable queries (thorough tier re-checks with /usr/bin/z3 4.8.12 and cvc5)",
    "CPython executes the source as the modelled AST semantics; Python int is mathematical; float64 comparisons/"
    "max/min/copies are modelled exactly over the reals for NaN-free values (no arithmetic on costs in these functions)",
    "induction over operation histories (an invariant established by __init__ and preserved by every operation holds "
    "after every finite history) is the standard meta-argument and is not a solver query",
]

SUP = "opfython.models.supervised.SupervisedOPF."
SUP_FILES = ["opfython/models/supervised.py", "opfython/core/heap.py", "opfython/core/subgraph.py", "opfython/core/node.py",
             "opfython/core/opf.py", "opfython/utils/constants.py"]
GRAPH_TRUST = [
    "arc weights are reads of the uninterpreted DFN(features, features) / PRE(idx, idx); the hypotheses of the property "
    "statement (finite < FLOAT_MAX, non-negative, symmetric where stated) are preconditions on them",
    "the list of Node objects is viewed as a struct of arrays; valid because every appended element is a Node constructed "
    "in the same function and appended once (checked by the engine at each `nodes.append`)",
    "feature rows are opaque values (sort Feat); X[i] denotes row i (numpy basic indexing / zip iteration yields views of "
    "the caller's rows - aliasing is the subject of C07, not modelled here)",
    "property setters/getters of Node/Subgraph/OPF are inlined from the real source; their `raise` statements are "
    "obligations (unreachable)",
]

PROPERTIES = {
    "C05": {
        "functions": HEAP_FUNCS,
        "lemmas": HEAP_LEMMAS,
        "files": ["opfython/core/heap.py", "opfython/utils/constants.py"],
        "bounded": "bounded.c05_heap",
        "level": "proof",
        "trusted": COMMON_TRUST + [
            "lemma schemas: strong induction on the heap position (root_best) and induction on the capacity with the "
            "induction hypothesis used at one constructed instance (pigeonhole, full_all_gray): base and step are solver "
            "queries, the induction principle itself is trusted",
            "`update` on a BLACK (already removed) element is outside the property's hypothesis and outside the contract",
            "termination: go_up/go_down carry decreases clauses (discharged); other functions are loop-free",
        ],
    },
    "C01": {
        "functions": [SUP + "fit", SUP + "_find_prototypes", "opfython.core.subgraph.Subgraph.__init__",
                      "opfython.core.subgraph.Subgraph._build"] + HEAP_FUNCS + ["lean:OptimumPath"],
        "lemmas": HEAP_LEMMAS + ["inj_card"],
        "files": SUP_FILES,
        "bounded": "bounded.supervised",
        "level": "proof",
        "trusted": COMMON_TRUST + GRAPH_TRUST + [
            "from the discharged postcondition (Bellman closure over all ordered pairs, prototypes at 0, every "
            "non-prototype attains max(cost(pred), d) with a predecessor strictly earlier in the conquest order) to "
            "'cost = minimum over all walks from a prototype of the largest arc, attained by the predecessor chain' is "
            "the theorem optimum_path_cost of lemmas/OptimumPath.lean (Lean 4 + Mathlib, re-checked by `lean` on every "
            "run; induction on the walk for <=, strong induction on the rank for attainment); that its hypotheses are "
            "the postconditions a_closure / a_prototypes / b_links / acyclic_rank of fit is by inspection",
        ],
    },
    "C02": {
        "functions": [SUP + "_find_prototypes", SUP + "fit", "opfython.core.subgraph.Subgraph.__init__",
                      "opfython.core.subgraph.Subgraph._build"] + HEAP_FUNCS,
        "lemmas": HEAP_LEMMAS + ["inj_card"],
        "files": SUP_FILES,
        "bounded": "bounded.supervised",
        "level": "proof",
        "explanation": "PROVED (solver-discharged, all sizes, all tie patterns, symmetric non-negative finite weights): "
                       "_find_prototypes meets a contract that states Prim's certificate on the real loop - ghost removal "
                       "ranks form a bijection; every non-root node hangs on an earlier-removed node and its cost is that "
                       "arc's weight (mst_tree: a spanning tree rooted at node 0); every tree arc is a lightest arc across the "
                       "cut {removed earlier} | {the rest} (mst_cut_certificate); a node is a prototype exactly when it is an "
                       "endpoint of a tree arc joining different labels (prototypes_only_on_class_boundaries with a ghost "
                       "witness arc per prototype, boundary_endpoints_are_prototypes); every class present has a prototype "
                       "(every_class_has_prototype); nothing but cost/pred/status changes.  fit (and the semi-supervised fit) "
                       "call it through that contract and keep every prototype at cost 0, predecessor NIL and its own label "
                       "(invariant I3, post a_prototypes).  Heap and Subgraph construction are under contract too.  "
                       "CITED, not mechanised: the cut property (a spanning tree all of whose arcs are lightest across such a "
                       "cut is a minimum spanning tree, the unique one when weights are distinct).  BOUNDED cross-check "
                       "(never counted): the real fit on generated graphs (n <= 6, tie-heavy and distinct weights), prototype "
                       "set compared with the boundary-endpoint sets of ALL minimum spanning trees (Pruefer enumeration).",
        "trusted": COMMON_TRUST + GRAPH_TRUST + [
            "cut property of minimum spanning trees (textbook theorem, cited): certificate => MST, unique for distinct weights",
            "the certificate posts of _find_prototypes are proved of its body and deliberately not exported to callers"],
    },
    "C03": {
        "functions": [SUP + "predict", "opfython.core.subgraph.Subgraph.mark_nodes",
                      "opfython.core.subgraph.Subgraph.__init__", "opfython.core.subgraph.Subgraph._build"],
        "lemmas": [],
        "files": SUP_FILES,
        "bounded": "bounded.supervised",
        "level": "proof",
        "trusted": COMMON_TRUST + GRAPH_TRUST + [
            "predict's precondition `fitted` is a sub-conjunction of fit's discharged postcondition (permutation sorted by "
            "cost); the semi-supervised model inherits predict unchanged",
            "termination of mark_nodes is not proved here (partial correctness)",
        ],
    },
    "C15": {
        "functions": ["opfython.models.semi_supervised.SemiSupervisedOPF.fit", SUP + "_find_prototypes",
                      "opfython.core.subgraph.Subgraph.__init__", "opfython.core.subgraph.Subgraph._build"] + HEAP_FUNCS
                     + ["lean:OptimumPath", "static:semi_equals_supervised"],
        "lemmas": HEAP_LEMMAS + ["inj_card"],
        "files": SUP_FILES + ["opfython/models/semi_supervised.py"],
        "bounded": "bounded.supervised",
        "level": "proof",
        "trusted": COMMON_TRUST + GRAPH_TRUST + [
            "the clause 'with an empty unlabeled set the result is identical to supervised training' is a relational "
            "obligation decided by mechanical statement alignment of the two real fit bodies (item "
            "static:semi_equals_supervised: the semi-supervised body minus the zero-trip append loop, its counter and the "
            "`label` stores is statement-for-statement the supervised body; the removed parts are read by nothing that "
            "runs afterwards, callees included) - the meta-argument 'same statements on states equal up to unread fields "
            "give equal results' is by inspection; the bounded channel compares the two real fits as well",
            "the step from the discharged postconditions to 'optimum max-arc path cost' is lemmas/OptimumPath.lean (as C01)",
        ],
    },
    "C13": {
        "functions": ["opfython.models.unsupervised.UnsupervisedOPF._clustering",
                      "opfython.models.knn_supervised.KNNSupervisedOPF._clustering",
                      "opfython.models.unsupervised.UnsupervisedOPF.propagate_labels"] + HEAP_FUNCS + ["lean:Forest"],
        "lemmas": HEAP_LEMMAS + ["inj_card"],
        "files": ["opfython/models/unsupervised.py", "opfython/models/knn_supervised.py", "opfython/core/heap.py",
                  "opfython/core/node.py", "opfython/core/subgraph.py", "opfython/subgraphs/knn.py",
                  "opfython/utils/constants.py"],
        "bounded": "bounded.knn",
        "level": "proof",
        "trusted": COMMON_TRUST + GRAPH_TRUST[2:] + [
            "precondition of _clustering (1 <= density <= MAX_DENSITY, cost = density - 1, adjacency entries are node "
            "indices, lists at least n_plateaus + k long) is what calculate_pdf / create_arcs leave behind; that link is "
            "the subject of C12 (until C12's contracts are discharged it is checked by the bounded channel only)",
            "float64 neighbour indices stored in the adjacency lists are modelled as integers (exact below 2^53)",
            "'reaches exactly one root, the recorded root is that root, and the sample carries the root's label / cluster "
            "identifier' follows from the discharged clauses C13_roots, C13_links and the strictly-earlier-predecessor "
            "clause: theorems reaches_recorded_root / only_one_root of lemmas/Forest.lean (Lean 4 + Mathlib, re-checked "
            "by `lean` on every run); the correspondence of hypotheses and clauses is by inspection",
        ],
    },
    "C06": {
        "functions": ["registry"] + ["metric:" + k for k in sorted(__import__("specs.metrics", fromlist=["METRICS"]).METRICS)],
        "lemmas": [],
        "files": ["opfython/math/distance.py", "opfython/core/opf.py", "opfython/utils/constants.py",
                  "opfython/utils/decorator.py", "opfython/models/supervised.py", "opfython/models/semi_supervised.py",
                  "opfython/models/knn_supervised.py", "opfython/models/unsupervised.py"],
        "bounded": "bounded.metrics",
        "level": "proof",
        "trusted": [
            "pyvc.vecexpr evaluates the numpy expressions of the metric bodies symbolically from the real AST "
            "(elementwise + - * / ** 2, ** 0.5, fabs, log, exp, minimum, maximum, comparisons; reductions sum / amax / "
            "count_nonzero; x.shape[0]); numpy broadcasting of a scalar and a vector is elementwise",
            "congruence + homogeneity + additivity of the reductions (equal summands give equal sums for EVERY vector "
            "length; sum(c*f) = c*sum(f); a numeric-linear combination of sums is the sum of the combination) - the "
            "external contract of np.sum / np.amax / np.count_nonzero; this is what removes the bound on the length",
            "machine arithmetic treated as mathematical (the property itself says 'up to floating-point rounding'); "
            "u ** 0.5 is the non-negative root, log/exp uninterpreted",
            "numba preserves the semantics of the @njit bodies; recorded deviation: inside @njit `b is True` on a boolean "
            "is equality (numba), which is how hassanat's mask test is read",
            "the closed-form table /verif/specs/metrics.py (from Cha 2007 and Abu Alfeilat et al. 2019) is the reference; "
            "for metrics wrapped by avoid_zero_division the closed form is stated at the shifted arguments and the shift "
            "itself is a static obligation on the wrapper",
            "z3 (nlsat) answers unsat only for unsatisfiable queries",
        ],
    },
    "C07": {
        "functions": ["effects:C07"] + ["metricreads:" + k for k in sorted(__import__("specs.metrics", fromlist=["METRICS"]).METRICS)],
        "lemmas": [],
        "files": ["opfython/utils/decorator.py", "opfython/math/distance.py", "opfython/core/node.py",
                  "opfython/core/subgraph.py", "opfython/core/opf.py", "opfython/models/supervised.py",
                  "opfython/models/semi_supervised.py", "opfython/models/knn_supervised.py",
                  "opfython/models/unsupervised.py", "opfython/subgraphs/knn.py", "opfython/math/general.py"],
        "bounded": "bounded.metrics",
        "level": "proof",
        "trusted": [
            "frame obligations are discharged by a conservative syntactic may-mutate inference (pyvc/effects.py) over the "
            "real source: in-place operators, element stores, mutating methods, aliases through assignment / basic "
            "indexing / np.asarray / zip / enumerate, attribute-held arrays (features, pre_distances), fix-point over the "
            "call graph with calls resolved by name to every function of that name; back end: static (no solver query)",
            "external library functions (numpy, pickle, json, struct) do not mutate their array arguments, except the "
            "ndarray methods listed as mutating",
            "history independence and reproducibility follow from the functional postconditions (C06: a metric's value is a "
            "function of the argument values) plus the `reads` obligations (no global / nonlocal state, no RNG in the "
            "listed functions); logging and timing statements are dropped",
            "SupervisedOPF.learn is licensed to exchange rows between its four arrays (C17) and is outside this property",
        ],
    },
    "C08": {
        "functions": ["registry"] + ["metric:" + k for k in sorted(__import__("specs.metrics", fromlist=["METRICS"]).METRICS)]
                     + ["axioms:" + k for k, v in sorted(__import__("specs.metrics", fromlist=["METRICS"]).METRICS.items())
                        if v["axioms"]] + ["lean:Minkowski"],
        "lemmas": [],
        "files": ["opfython/math/distance.py", "opfython/utils/decorator.py", "opfython/utils/constants.py"],
        "bounded": "bounded.metrics",
        "level": "other",
        "explanation": "PROVED over the reals (z3), for every vector length: each registry entry equals its closed form and every "
                       "division / log / root is defined on the domain (C06 obligations); and, as lemmas over the closed forms "
                       "(`axioms:<name>`): SYMMETRY of every metric the table marks symmetric (summands of d(y,x) matched "
                       "pointwise with summands of d(x,y), outer expressions equal), NON-NEGATIVITY and ZERO SELF-DISTANCE of "
                       "every dissimilarity the table marks (a reduction of identically-zero terms is 0; sign facts of "
                       "reductions from pointwise signs), and the TRIANGLE INEQUALITY of manhattan, gower, non_intersection, "
                       "hamming, canberra, chebyshev and lorentzian from the pointwise triangle inequality of their summand "
                       "(additivity + monotonicity of SUM, sub-additivity of AMAX; for lorentzian log monotone with "
                       "log(uv) = log u + log v). ASSUMED: the listed properties of log / sqrt and of the reductions. "
                       "PROVED IN LEAN 4 + MATHLIB (lemmas/Minkowski.lean, re-checked by `lean` on every run, all vector "
                       "lengths): the triangle inequality of the closed forms of euclidean, average_euclidean, matusita, "
                       "hellinger and log_euclidean (from Mathlib's dist_triangle on EuclideanSpace, sqrt_div / sqrt_mul, and "
                       "log monotone with log(uv) = log u + log v); that these theorems state the closed forms of the sidecar "
                       "table is by inspection. CITED (not mechanised): the Soergel triangle inequality. BOUNDED (run-time contract on the real functions, "
                       "length 1..6, identical / parallel / probability / zero-containing vectors): FINITENESS in floating "
                       "point (incl. the float-fragile radicand of chord and the sign of cosine / bhattacharyya up to 1 ulp), "
                       "the cited triangle inequalities, and the whole axiom table again on the compiled code.",
        "trusted": ["see C06", "axiom table fixed in /verif/specs/metrics.py",
                    "Lean 4 kernel + Mathlib for lemmas/Minkowski.lean; the correspondence between its theorem statements and "
                    "the closed forms of specs/metrics.py is by inspection",
                    "log: log 1 = 0, sign of log around 1, log(u/v) = log u - log v, monotone (assumed)"],
    },
    "C12": {
        "functions": ["opfython.subgraphs.knn.KNNSubgraph.create_arcs", "opfython.subgraphs.knn.KNNSubgraph.calculate_pdf",
                      "opfython.subgraphs.knn.KNNSubgraph.eliminate_maxima_height",
                      "opfython.core.subgraph.Subgraph.destroy_arcs"],
        "lemmas": [],
        "files": ["opfython/subgraphs/knn.py", "opfython/core/subgraph.py", "opfython/core/node.py",
                  "opfython/utils/constants.py"],
        "bounded": "bounded.knn",
        "level": "proof",
        "trusted": COMMON_TRUST[:3] + [
            "arc weights are reads of the uninterpreted DFN / PRE (finite, non-negative; no symmetry assumed)",
            "float64 arrays that only hold sample indices (neighbours_idx, adjacency entries) are modelled as integer arrays "
            "(exact below 2^53); int() of such an entry is the identity",
            "exp is uninterpreted with the external contract exp(u) > 0 and exp(u) <= 1 for u <= 0; the sum over the k "
            "neighbours is the ghost function PSUM defined by primitive recursion (a conservative extension assumed at "
            "entry, exported to callers with a fresh symbol per call); + * / on reals are mathematical (rounding outside)",
            "create_arcs is specified for fresh arcs (empty neighbour lists) as the statement says; its density bound is "
            "max(bound before the call, largest neighbour distance) with the 1e-5 fallback - the accumulation across calls "
            "(note N1 in DESIGN) is visible in the contract",
            "calculate_pdf requires a positive density bound (what create_arcs leaves); UnsupervisedOPF._best_minimum_cut "
            "overrides the bound with max_distances[k-1], which is 0 on heavily duplicated data (note N3 in DESIGN)",
        ],
    },
    "C14": {
        "functions": ["opfython.models.knn_supervised.KNNSupervisedOPF.predict",
                      "opfython.models.unsupervised.UnsupervisedOPF.predict",
                      "opfython.subgraphs.knn.KNNSubgraph.__init__", "opfython.core.subgraph.Subgraph.__init__",
                      "opfython.core.subgraph.Subgraph._build"],
        "lemmas": [],
        "files": ["opfython/models/knn_supervised.py", "opfython/models/unsupervised.py", "opfython/subgraphs/knn.py",
                  "opfython/core/subgraph.py", "opfython/core/node.py", "opfython/utils/constants.py"],
        "bounded": "bounded.knn",
        "level": "proof",
        "trusted": COMMON_TRUST[:3] + [
            "the statement is discharged as an in-line assertion at the end of every iteration of the query loop (anchor "
            "after:loop4, clauses k_nearest_*, nobody_closer_outside, density_formula, winner) for an arbitrary query index; "
            "the returned lists are the labels / clusters assigned there",
            "arc weights: uninterpreted DFN(query, training) / PRE(idx query, idx training), finite and non-negative; no "
            "symmetry assumed (argument order as in the code)",
            "exp uninterpreted (positive, <= 1 for non-positive arguments); the sum over the k distances is a ghost "
            "partial-sum array; EPSILON is the exact value of the double read from constants.py",
            "index arrays modelled as integers; precondition `fitted`: 1 <= best_k <= number of training samples, constant > 0, "
            "0 <= min_density <= max_density <= 1 - established by create_arcs / calculate_pdf (C12) and the k selection (C16)",
        ],
    },
    "C16": {
        "functions": ["opfython.models.knn_supervised.KNNSupervisedOPF._learn", "opfython.models.knn_supervised.KNNSupervisedOPF.fit",
                      "opfython.models.unsupervised.UnsupervisedOPF._best_minimum_cut",
                      "opfython.models.unsupervised.UnsupervisedOPF._normalized_cut",
                      "opfython.models.unsupervised.UnsupervisedOPF.fit",
                      "opfython.models.knn_supervised.KNNSupervisedOPF._clustering",
                      "opfython.models.unsupervised.UnsupervisedOPF._clustering",
                      "opfython.models.knn_supervised.KNNSupervisedOPF.predict",
                      "opfython.subgraphs.knn.KNNSubgraph.create_arcs", "opfython.subgraphs.knn.KNNSubgraph.calculate_pdf",
                      "opfython.core.subgraph.Subgraph.destroy_arcs", "opfython.subgraphs.knn.KNNSubgraph.__init__"],
        "lemmas": ["inj_card", "inj_card_off", "inj_card_goff", "pigeonhole"],
        "files": ["opfython/models/knn_supervised.py", "opfython/models/unsupervised.py", "opfython/subgraphs/knn.py",
                  "opfython/core/subgraph.py", "opfython/core/node.py", "opfython/core/heap.py", "opfython/math/general.py",
                  "opfython/utils/constants.py"],
        "bounded": "bounded.knn",
        "level": "proof",
        "trusted": COMMON_TRUST[:3] + [
            "ASSUMED contract of g.opf_accuracy (its body is C20's subject): returns a real in [0, 1]",
            "the criterion values are ghost sequences: acc[k] / cut[k] := the value returned in iteration k; the postconditions "
            "say best_k is the smallest index attaining the maximum (minimum) over the candidates evaluated, that evaluation of "
            "cuts is a prefix min_k..last and stops early only after a cut of exactly 0, and that the final graph / clustering "
            "is built with subgraph.best_k",
            "preconditions: 1 <= k range <= n - 1, n < 2^53; unsupervised k selection additionally assumes that distinct "
            "training samples are at positive distance (otherwise the density bound max_distances[k-1] used for candidate k "
            "can be 0 and the intermediate density estimates are NaN - note N3 in DESIGN; the final model is unaffected)",
            "pre-computed matrix of the KNN model has shape n x n (otherwise _learn raises BuildError)",
        ],
    },
    "C04": {
        "functions": ["opfython.models.knn_supervised.KNNSupervisedOPF.fit", "opfython.models.knn_supervised.KNNSupervisedOPF._clustering",
                      "opfython.models.knn_supervised.KNNSupervisedOPF._learn",
                      # the supervised half is reduced to C01 + C02 + C03 (+ a cited theorem): their contracts are premises
                      SUP + "_find_prototypes", SUP + "fit", SUP + "predict"] + HEAP_FUNCS,
        "lemmas": HEAP_LEMMAS + ["inj_card_off", "inj_card_goff", "inj_card"],
        "files": ["opfython/models/knn_supervised.py", "opfython/models/supervised.py", "opfython/core/heap.py",
                  "opfython/subgraphs/knn.py", "opfython/math/distance.py", "opfython/utils/constants.py"],
        "bounded": "bounded.c04",
        "level": "other",
        "explanation": "PROVED (all data, ties included): KNN-supervised training assigns every training sample its own label - "
                       "postcondition C04_own_labels of KNNSupervisedOPF.fit, from the invariant K7_force of _clustering "
                       "(a conquest across classes is forced to -FLOAT_MAX and can never beat a cost >= density - 1 >= 0). "
                       "NOT PROVED: the supervised half. C01 + C02 + C03 reduce it to the theorem of Papa, Falcao & Suzuki "
                       "2009 (with MST prototypes and distinct weights every training node is conquered by a prototype of its "
                       "own class), which is CITED, not mechanised. BOUNDED stand-in: the real fit/predict on tie-free weight "
                       "orders injected through pre_distances (exhaustive for n <= 4, seeded samples for n = 5, 6) and on "
                       "generic positive data with every metric that is a symmetric non-negative dissimilarity.",
        "trusted": COMMON_TRUST + ["see C13 / C16 for the contracts the KNN half rests on"],
    },
    "C09": {
        "functions": [SUP + "predict", "opfython.core.subgraph.Subgraph.mark_nodes",
                      "opfython.models.knn_supervised.KNNSupervisedOPF.predict",
                      "opfython.models.unsupervised.UnsupervisedOPF.predict", "effects:C07", "lean:KNearest"],
        "lemmas": [],
        "files": ["opfython/models/supervised.py", "opfython/models/knn_supervised.py", "opfython/models/unsupervised.py",
                  "opfython/core/subgraph.py", "opfython/subgraphs/knn.py", "opfython/core/node.py"],
        "bounded": "bounded.c09",
        "level": "proof",
        "explanation": "PROVED: (1) frame - predict of the KNN-supervised and unsupervised models modifies NO model state "
                       "(`modifies` is empty; one frame obligation per field of the model and its subgraph), supervised / "
                       "semi-supervised predict modifies only the relevance flags, which it never reads; hence earlier calls "
                       "and batch-mates cannot influence a prediction through the model; (2) the per-sample characterisations "
                       "C03 / C14 hold for an arbitrary position of the query loop and mention only the model state and that "
                       "sample's node (scratch buffers are re-initialised per query, which is part of the discharged entry "
                       "obligations); (3) no global state, clock or RNG is read (effects layer); (4) for the supervised / "
                       "semi-supervised predict the answer is characterised FUNCTIONALLY - the label of the first minimiser of "
                       "max(cost, distance) in conquest order (post first_minimiser, ghost winner position, strict updates) - "
                       "and the relational post position_independent is discharged: two queries of one batch that present the "
                       "same sample (equal features, or equal dataset index under pre-computed distances) get the same label; "
                       "with (1) the same function is computed by every later call; (5) for the KNN-supervised / unsupervised "
                       "predict the per-query assertion now also fixes WHICH k samples in WHICH order and WHICH winner: the "
                       "buffer is strictly ascending in the lexicographic order on (distance, training position) (stable "
                       "insertion: invariants tie_stable / tie_outside_after / tie_shifted_strict), every sample outside comes "
                       "after its last entry in that order, and the winner is the FIRST maximiser of min(cost, density) "
                       "(tie_first_so_far); lemmas/KNearest.lean (Lean 4 + Mathlib, re-checked on every run) proves that these "
                       "clauses admit at most one buffer, one density and one winner, hence one label / cluster per (model, "
                       "sample). NOTE: the contracts thereby fix the tie policies (first minimiser; stable k-NN buffer + first "
                       "maximiser); a change to another deterministic "
                       "policy would be reported although C09 would still hold. BOUNDED: relational run-time contract - "
                       "the same sample alone, at every position of batches with other samples / duplicates, and after earlier "
                       "predict calls, on all four model kinds.",
        "trusted": COMMON_TRUST[:3] + ["see C03, C14, C07"],
    },
    "C20": {
        "functions": ["opfython.math.general.confusion_matrix", "opfython.math.general.opf_accuracy",
                      "opfython.math.general.opf_accuracy_per_label", "opfython.math.general.purity", "static:normalize"],
        "lemmas": ["cnt_bounds", "err_bounds", "rsum_bounds", "rsum_le", "colcnt_zero", "colcnt_step", "colcnt_total",
                   "pair_bounds"],
        "files": ["opfython/math/general.py"],
        "bounded": "bounded.general",
        "level": "proof",
        "explanation": "PROVED (z3, all vector lengths, all K >= 2 for opf_accuracy / all K >= 1 otherwise): confusion_matrix "
                       "counts every (true, predicted) pair exactly once (entries = recursive pair counter); opf_accuracy = "
                       "1 - np.sum(e)/(2K) with e[c] = FP_c/(N - N_c) + FN_c/N_c, lies in [0, 1], and equals 1 exactly when "
                       "every prediction is correct (counting lemmas by induction on the prefix; divisions shown defined; the "
                       "bounds and the zero test of the sum by lemma rsum_bounds, induction on the length); "
                       "opf_accuracy_per_label[c] = 1 - FN_c/N_c (recall); purity = np.sum(column maxima of the confusion "
                       "matrix)/N lies in (0, 1] and equals 1 exactly when every predicted group contains a single true class "
                       "(lemmas: pair counter <= group size with equality iff the group is pure, group sizes add up to N by a "
                       "double induction, sums are monotone with equality iff termwise equality); normalize has the "
                       "column-wise standard-score shape (static obligation under numpy's broadcasting contract). ASSUMED: "
                       "the external contracts of np.max, np.bincount (+ its bins add up to the number of items), "
                       "np.unique(return_counts) on label sets 0..K-1, np.nansum(axis=1) without NaN, np.sum(v) = the real sum "
                       "RSUM(v, len v) (RSUM is DEFINED by recursion; nothing else is assumed about it). BOUNDED ONLY: K = 1 "
                       "for opf_accuracy (0/0 -> NaN -> nansum is outside the real-number model), numeric normalize values.",
        "trusted": COMMON_TRUST[:3] + ["assumed numpy contracts (specs/general.py): np.max, np.bincount, np.unique, np.nansum, "
                                       "np.sum == mathematical sum, elementwise arithmetic and in-place column division of 2-D arrays",
                                       "floating-point rounding is outside the statement (reals)"],
    },
    "C17": {
        "functions": ["opfython.core.subgraph.Subgraph.mark_nodes", SUP + "predict", SUP + "prune", SUP + "fit"],
        "lemmas": ["inj_card", "pigeonhole"],
        "files": ["opfython/models/supervised.py", "opfython/core/subgraph.py", "opfython/core/node.py", "opfython/math/random.py"],
        "bounded": "bounded.c17",
        "level": "other",
        "explanation": "PROVED: (1) Subgraph.mark_nodes flags exactly the chain from the given sample to its root (ghost path, "
                       "membership maps) and nothing else, and terminates (decreases: the rank witness exported by fit's "
                       "postcondition); (2) in SupervisedOPF.predict the sample passed to mark_nodes is the conqueror of the "
                       "query (invariant conqueror == argmin witness of C03) for every query, so per query exactly the conqueror "
                       "and its ancestors are flagged, on top of the flags present before - the statement then follows by "
                       "induction over the queries (pencil step); a fresh fit leaves every flag IRRELEVANT (fit's "
                       "postcondition); (3) SupervisedOPF.prune: every selection pass retains exactly the samples whose flag "
                       "is not IRRELEVANT, in order, with their own labels; the final training arrays and the final model's "
                       "nodes are rows g_map[0] < g_map[1] < ... of the original arrays (sub-multiset, labels intact). "
                       "ASSUMED at prune's call sites: the row-construction clauses of fit / predict (see specs/prune.py). "
                       "KNOWN FINDING (open): SupervisedOPF.learn raises TypeError as soon as a validation sample is "
                       "misclassified (F5); its clauses (multiset conservation, best classifier kept) are therefore not "
                       "checked beyond that witness. BOUNDED: relevance oracle and prune sub-multiset oracle on generated data.",
        "trusted": COMMON_TRUST + GRAPH_TRUST,
    },
    "C10": {
        "functions": ["static:precomputed_sites", "opfython.math.general.pre_compute_distance", "opfython.core.opf.OPF.get_distances",
                      "opfython.core.subgraph.Subgraph._build", "opfython.core.subgraph.Subgraph.__init__"],
        "lemmas": [],
        "files": ["opfython/math/general.py", "opfython/core/opf.py", "opfython/stream/loader.py", "opfython/models/supervised.py",
                  "opfython/models/semi_supervised.py", "opfython/models/unsupervised.py", "opfython/models/knn_supervised.py",
                  "opfython/subgraphs/knn.py", "opfython/core/subgraph.py"],
        "bounded": "bounded.c10",
        "level": "other",
        "explanation": "PROVED: pre_compute_distance fills M[a][b] = metric(data[a], data[b]) for every ORDERED pair and hands the "
                       "matrix to np.savetxt with ',' for .csv and ' ' otherwise (three output names); get_distances returns the "
                       "metric on every ordered pair of the training nodes; Subgraph._build gives node t the identifier I[t] and "
                       "the features X[t]. STATIC (finite obligations over the AST): each of the 10 weight-read sites has the shape "
                       "`M[P.idx][Q.idx]` / `F(P.features, Q.features)` with the SAME nodes in the SAME order, there is no other "
                       "read of the matrix or call of the metric in the model files, _read_distances dispatches on the extension "
                       "to the loader with the matching delimiter. Since every other statement of the algorithms is deterministic "
                       "code over the weights (C07 reads obligations), equal weights at every read give equal results. ASSUMED: "
                       "np.savetxt / np.loadtxt are an exact float64 text round trip ('%.18e'). BOUNDED: the end-to-end "
                       "equivalence on real files (.txt and .csv, symmetric and asymmetric metrics, shuffled index sets), "
                       "get_distances(normalize=True). KNOWN FINDING (open, F8): the semi-supervised model gives unlabeled "
                       "samples positional identifiers, so the equivalence holds for it only when the dataset is laid out "
                       "labelled-first.",
        "trusted": COMMON_TRUST[:3] + ["np.savetxt/np.loadtxt exact text round trip (assumed, exercised by the bounded channel)"],
    },
    "C18": {
        "functions": ["opfython.stream.splitter.split", "opfython.stream.splitter.split_with_index",
                      "opfython.stream.splitter.merge"],
        "lemmas": [],
        "files": ["opfython/stream/splitter.py", "opfython/stream/loader.py", "opfython/stream/parser.py",
                  "opfython/utils/converter.py", "opfython/core/subgraph.py"],
        "bounded": "bounded.c18",
        "level": "other",
        "explanation": "PROVED (all sizes, percentages in [0, 1], seeds): split / split_with_index return floor(n * percentage) "
                       "rows first and the rest second; output row r of the first set is input row perm[r] with its own label "
                       "(and index), of the second input row perm[h + r], where perm = np.random.permutation(n) right after "
                       "np.random.seed(seed) - a bijection of 0..n-1 that depends on (seed, n) only (assumed numpy contract), "
                       "hence a partition and a deterministic function of the seed; split and split_with_index agree; merge "
                       "is the concatenation in matching order (assumed vstack / hstack contract), so merging the two sets "
                       "gives back every sample once. BOUNDED (file formats are external contracts: struct, np.savetxt / "
                       "np.loadtxt, json): OPF binary -> .txt / .csv / .json -> load -> parse yields identical identifiers, "
                       "exact float32 features and labels - 1 in the three formats, including one-sample files; parse_loader "
                       "rejects non-sequential label sets.",
        "trusted": COMMON_TRUST[:3] + ["assumed numpy contracts: random.seed + random.permutation, fancy indexing with an index "
                                       "array (copy of the selected rows), basic slices, vstack / hstack",
                                       "int(len(X) * percentage) is the floor of the exact product (real arithmetic; a double "
                                       "product could differ by one ulp at exact multiples - outside the model)"],
    },
    "C19": {
        "functions": ["static:pickle_frame", "effects:C07"],
        "lemmas": [],
        "files": ["opfython/core/opf.py", "opfython/core/node.py", "opfython/core/subgraph.py", "opfython/subgraphs/knn.py"],
        "bounded": "bounded.c19",
        "level": "exploration",
        "explanation": "pickle's behaviour on numpy arrays and numba dispatchers is an external library contract, so the deciding "
                       "check is the bounded run-time contract (rule below). Statically discharged: save only pickles self, load "
                       "adopts every attribute of the unpickled object, no class customises pickling; save does not mutate self.",
        "trusted": ["pickle round-trips numpy arrays, Python scalars and numba-compiled functions (assumed; exercised)"],
    },
    "C11": {
        "functions": ["static:order_only", "static:monotone_family"] + ["metric:" + k for k in (
            "euclidean", "squared_euclidean", "average_euclidean", "log_euclidean", "log_squared_euclidean")],
        "lemmas": [],
        "files": ["opfython/models/supervised.py", "opfython/core/heap.py", "opfython/math/distance.py",
                  "opfython/utils/constants.py"],
        "bounded": "bounded.c11",
        "level": "other",
        "explanation": "MONOTONE RESCALING - discharged as finite obligations plus a pencil meta-argument: (1) in the heap, "
                       "_find_prototypes, fit and predict, costs and arc weights are used ONLY through comparisons, np.maximum / "
                       "np.minimum, copies and the sentinels 0 and FLOAT_MAX (order-only discipline, one AST obligation per "
                       "function; any arithmetic on a cost fails it); (2) the five Euclidean-family closed forms (proved equal "
                       "to the code in C06) are strictly increasing functions of the sum of squared differences vanishing at 0 "
                       "(z3, log assumed strictly increasing with log 1 = 0). A program with discipline (1) computes the same "
                       "predecessors, prototypes, labels, order and predictions for W and phi(W) (coupling preserved statement "
                       "by statement). PERMUTATION of the training samples - NOT decided deductively (needs MST uniqueness and "
                       "the zero-resubstitution theorem, both cited): BOUNDED relational run-time contract on tie-free data "
                       "(seeded permutations; all n! for n <= 5 in the thorough tier), together with the rescaling half.",
        "trusted": ["see C06 for the closed forms; log strictly increasing (assumed)"],
    },
}
