"""Which functions / lemmas / bounded harnesses decide which property (dependency closure, DESIGN §3)."""

HEAP_FUNCS = ["opfython.core.heap.Heap." + m for m in
              ("__init__", "is_full", "is_empty", "dad", "left_son", "right_son", "go_up", "go_down",
               "insert", "remove", "update")]
HEAP_LEMMAS = ["root_best", "pigeonhole", "full_all_gray"]

COMMON_TRUST = [
    "pyvc (this VC generator: /verif/pyvc) translates the Python AST faithfully for the subset it accepts "
    "(checked by seeded-edit self tests and by the run-time twin on the real code)",
    "z3 5.1.0 answers `unsat` only for unsatisfiable queries (thorough tier re-checks with /usr/bin/z3 4.8.12 and cvc5)",
    "CPython executes the source as the modelled AST semantics; Python int is mathematical; float64 comparisons/"
    "max/min/copies are modelled exactly over the reals for NaN-free values (no arithmetic on costs in these functions)",
    "induction over operation histories (an invariant established by __init__ and preserved by every operation holds "
    "after every finite history) is the standard meta-argument and is not a solver query",
]

PROPERTIES = {
    "C05": {
        "functions": HEAP_FUNCS,
        "lemmas": HEAP_LEMMAS,
        "files": ["opfython/core/heap.py", "opfython/utils/constants.py"],
        "bounded": "bounded.c05_heap",
        "level": "proof",
        "trusted": COMMON_TRUST + [
            "lemma schemas: strong induction on the heap position (root_best) and induction on the capacity with the "
            "induction hypothesis used at one constructed instance (pigeonhole, full_all_gray): base and step are solver "
            "queries, the induction principle itself is trusted",
            "`update` on a BLACK (already removed) element is outside the property's hypothesis and outside the contract",
            "termination: go_up/go_down carry decreases clauses (discharged); other functions are loop-free",
        ],
    },
}
