"""Contracts for opfython/core/heap.py (property C05; foundation of C01, C02, C13, C15).

Clauses are polymorphic (pyvc.logic): they build z3 terms on symbolic views and evaluate to
booleans on real `Heap` objects (replay, bounded channel).
"""
from pyvc.contracts import contract, schema, lemma, LoopSpec
from pyvc.logic import (conj, disj, neg, implies, iff, ite, eq, ne, lt, le, gt, ge, between, forall, exists,
                        length, vmax, vmin, idiv)

WHITE, GRAY, BLACK = 0, 1, 2   # re-read from constants.py by the engine; cross-checked in check_constants()

schema("Heap", size="int", policy="str", cost="list[real]", color="list[int]", p="list[int]", pos="list[int]",
       last="int")

H = "opfython.core.heap.Heap."
PROPS = ["C05", "C01", "C02", "C13", "C15"]


# ---------------------------------------------------------------- predicates

def better(h, a, b):
    """a may sit above b in the heap"""
    return ite(eq(h.policy, "min"), le(a, b), ge(a, b))


def strictly_better(h, a, b):
    return ite(eq(h.policy, "min"), lt(a, b), gt(a, b))


def shape(h):
    return conj(ge(h.size, 1),
                eq(length(h.cost), h.size), eq(length(h.color), h.size),
                eq(length(h.p), h.size), eq(length(h.pos), h.size),
                le(-1, h.last), lt(h.last, h.size),
                disj(eq(h.policy, "min"), eq(h.policy, "max")))


def colors_ok(h):
    return forall(0, h.size, lambda x: disj(eq(h.color[x], WHITE), eq(h.color[x], GRAY), eq(h.color[x], BLACK)))


def index_inv(h):
    return conj(
        forall(0, h.last + 1, lambda i: conj(le(0, h.p[i]), lt(h.p[i], h.size), eq(h.pos[h.p[i]], i),
                                             eq(h.color[h.p[i]], GRAY))),
        forall(0, h.size, lambda x: implies(eq(h.color[x], GRAY),
                                            conj(le(0, h.pos[x]), le(h.pos[x], h.last), eq(h.p[h.pos[x]], x)))),
        colors_ok(h))


def is_child(a, b):
    """b is a son of a"""
    return disj(eq(b, 2 * a + 1), eq(b, 2 * a + 2))


def order_except(h, hole_child, hole_parent):
    """all parent/son pairs (a, b) are ordered, except pairs with b == hole_child or a == hole_parent
    (pass -1 for no hole)"""
    return forall(0, h.last + 1,
                  lambda a, b: implies(conj(is_child(a, b), ne(b, hole_child), ne(a, hole_parent)),
                                       better(h, h.cost[h.p[a]], h.cost[h.p[b]])),
                  pats=(lambda a, b: [_mp(h.p[a], h.p[b])]) if _SYM() else None)


def order_inv(h):
    return order_except(h, -1, -1)


def _SYM():
    from pyvc.logic import MODE
    return MODE.kind == "sym"


def _mp(*ts):
    import z3
    return z3.MultiPattern(*ts)


def grand_up(h, i):
    """while sifting up from i: the father of i is in order with the sons of i"""
    return forall(0, h.last + 1,
                  lambda a, b: implies(conj(is_child(a, i), is_child(i, b)),
                                       better(h, h.cost[h.p[a]], h.cost[h.p[b]])),
                  pats=(lambda a, b: [_mp(h.p[a], h.p[b])]) if _SYM() else None)


def grand_down(h, i):
    """while sifting down from i: the father of i is in order with the sons of i"""
    return grand_up(h, i)


REVEAL = [True]      # the driver reveals the definition only while verifying heap.py itself and the heap lemmas


def inv_def(h):
    return conj(shape(h), index_inv(h), order_inv(h))


def gray_range(h):
    return forall(0, h.size, lambda x: implies(eq(h.color[x], GRAY), conj(le(0, h.pos[x]), le(h.pos[x], h.last))))


def inv(h):
    """heap invariant.  For the callers of the heap (graph algorithms) it is OPAQUE: an uninterpreted predicate of
    the heap's fields plus the few consequences they use (shape, colour domain, queued positions in range); the
    definition (shape + index_inv + order_inv) is revealed only inside heap.py's own obligations and lemmas."""
    from pyvc.logic import MODE
    if MODE.kind != "sym" or REVEAL[0]:
        return inv_def(h)
    import z3
    from pyvc.engine import INT, REAL
    AI, AR = z3.ArraySort(INT, INT), z3.ArraySort(INT, REAL)
    Q = z3.Function("HEAP_INV", AI, AI, AR, AI, INT, INT, INT, z3.BoolSort())
    from pyvc.logic import lift
    return conj(Q(h.p.arr, h.pos.arr, h.cost.arr, h.color.arr, lift(h.last, INT), lift(h.size, INT),
                  lift(h.policy, INT)),
                shape(h), colors_ok(h), gray_range(h))


def with_cost(h, x, c):
    import types
    import z3
    from pyvc.engine import SList, REAL
    from pyvc.logic import lift
    return types.SimpleNamespace(p=h.p, pos=h.pos, color=h.color, last=h.last, size=h.size, policy=h.policy,
                                 cost=SList(z3.Store(h.cost.arr, lift(x, z3.IntSort()), lift(c, REAL)),
                                            h.cost.length, "real"))


def _cost_write_conclusion(h, x):
    import z3
    c = z3.Real("cw.c")
    hc = with_cost(h, x, c)
    return z3.ForAll([c], inv(hc), patterns=[hc.cost.arr])


def same_list(a, b, n):
    return conj(eq(length(a), length(b)), forall(0, n, lambda k: eq(a[k], b[k])))


def unchanged(h, o, fields):
    out = []
    for f in fields:
        a, b = getattr(h, f), getattr(o, f)
        if f in ("cost", "color", "p", "pos"):
            out.append(same_list(a, b, o.size))
        else:
            out.append(eq(a, b))
    return conj(*out)


def queued_same(h, o):
    """the multiset of queued elements is unchanged: p is a permutation (witnessed by pos)"""
    return conj(forall(0, o.size, lambda x: eq(h.color[x], o.color[x])))


# ---------------------------------------------------------------- simple observers

contract(H + "is_full", params={"self": "obj:Heap", "return": "bool"}, props=PROPS,
         requires=lambda v: [("shape", shape(v.self))],
         ensures=lambda v, old, result: [("iff", iff(result, eq(v.self.last, v.self.size - 1)))])

contract(H + "is_empty", params={"self": "obj:Heap", "return": "bool"}, props=PROPS,
         requires=lambda v: [("shape", shape(v.self))],
         ensures=lambda v, old, result: [("iff", iff(result, eq(v.self.last, -1)))])

contract(H + "dad", params={"self": "obj:Heap", "i": "int", "return": "int"}, props=PROPS,
         requires=lambda v: [("nonneg", ge(v.i, 0))],
         ensures=lambda v, old, result: [
             ("father", implies(ge(v.i, 1), conj(ge(result, 0), lt(result, v.i), is_child(result, v.i)))),
             ("root", implies(eq(v.i, 0), eq(result, 0)))])

contract(H + "left_son", params={"self": "obj:Heap", "i": "int", "return": "int"}, props=PROPS,
         ensures=lambda v, old, result: [("val", eq(result, 2 * v.i + 1))])

contract(H + "right_son", params={"self": "obj:Heap", "i": "int", "return": "int"}, props=PROPS,
         ensures=lambda v, old, result: [("val", eq(result, 2 * v.i + 2))])


# ---------------------------------------------------------------- sift up

def go_up_inv(v, old, le_):
    h, o = v.self, old.self
    return [
        ("shape", shape(h)),
        ("index", index_inv(h)),
        ("i_range", conj(le(0, v.i), le(v.i, h.last))),
        ("j_dad", conj(implies(ge(v.i, 1), conj(is_child(v.j, v.i), ge(v.j, 0))), implies(eq(v.i, 0), eq(v.j, 0)))),
        ("order_hole", order_except(h, v.i, -1)),
        ("grand", grand_up(h, v.i)),
        ("frame", conj(unchanged(h, o, ["size", "policy", "last", "cost", "color"]))),
    ]


contract(H + "go_up", params={"self": "obj:Heap", "i": "int"}, props=PROPS,
         requires=lambda v: [("shape", shape(v.self)), ("index", index_inv(v.self)),
                             ("i_range", conj(le(0, v.i), le(v.i, v.self.last))),
                             ("order_hole", order_except(v.self, v.i, -1)),
                             ("grand", grand_up(v.self, v.i))],
         ensures=lambda v, old, result: [("shape", shape(v.self)), ("index", index_inv(v.self)),
                                         ("order", order_inv(v.self)),
                                         ("frame", unchanged(v.self, old.self,
                                                             ["size", "policy", "last", "cost", "color"]))],
         modifies=["self.p", "self.pos"],
         loops=[LoopSpec("while", inv=go_up_inv, decreases=lambda v: v.i),
                LoopSpec("while", inv=go_up_inv, decreases=lambda v: v.i)])


# ---------------------------------------------------------------- sift down (recursive)

contract(H + "go_down", params={"self": "obj:Heap", "i": "int"}, props=PROPS,
         requires=lambda v: [("shape", shape(v.self)), ("index", index_inv(v.self)),
                             ("i_nonneg", ge(v.i, 0)),
                             ("order_hole", order_except(v.self, -1, v.i)),
                             ("grand", grand_down(v.self, v.i))],
         ensures=lambda v, old, result: [("shape", shape(v.self)), ("index", index_inv(v.self)),
                                         ("order", order_inv(v.self)),
                                         ("frame", unchanged(v.self, old.self,
                                                             ["size", "policy", "last", "cost", "color"]))],
         modifies=["self.p", "self.pos"],
         decreases=lambda v: v.self.last + 1 - v.i)


# ---------------------------------------------------------------- lemma: the root is extremal

lemma("root_best", params={"h": "obj:Heap"}, props=PROPS,
      hyp=lambda h: [("shape", shape(h)), ("order", order_inv(h))],
      concl=lambda h, k: better(h, h.cost[h.p[0]], h.cost[h.p[k]]),
      hints=lambda h, k: [("father", implies(ge(k, 1), conj(is_child(idiv(k - 1, 2), k),
                                                             better(h, h.cost[h.p[idiv(k - 1, 2)]],
                                                                    h.cost[h.p[k]]))))],
      lo=lambda h: 0, hi=lambda h: h.last + 1)


# ---------------------------------------------------------------- lemma: a full heap has no WHITE/BLACK element
# Pigeonhole: an injective map of [0, m) into [0, m) (injective because `pos` is a left inverse) is onto.
# Proved by induction on m; the step uses the induction hypothesis at ONE constructed instance (p2, pos2):
# remove the value m from the range by redirecting the index that hits m to y = p[m].

def ph_hyp(p, pos, m):
    return forall(0, m, lambda i: conj(le(0, p[i]), lt(p[i], m), eq(pos[p[i]], i)))


def ph_concl(p, pos, m):
    return forall(0, m, lambda x: conj(le(0, pos[x]), lt(pos[x], m), eq(p[pos[x]], x)))


def _ph_vcs(p, pos, m):
    import z3
    from pyvc.engine import fresh_list
    y = p[m]
    p2, pos2 = fresh_list("ph.p2", "int"), fresh_list("ph.pos2", "int")
    k = z3.Int("ph.k")
    defs = [z3.ForAll([k], p2[k] == z3.If(p[k] == m, y, p[k]), patterns=[p2[k]]),
            pos2.arr == z3.Store(pos.arr, y, pos[m])]
    base = [ge(m, 0), ph_hyp(p, pos, m + 1)] + defs
    ih = ph_concl(p2, pos2, m)
    # explicit instances (each is itself an obligation) so that the step does not depend on quantifier search
    h1 = conj(eq(pos2[y], pos[m]), eq(pos[y], m), le(0, y), le(y, m))
    h2 = implies(ne(y, m), conj(le(0, pos2[y]), lt(pos2[y], m), eq(p2[pos2[y]], y)))
    h3 = implies(ne(y, m), conj(le(0, pos[m]), lt(pos[m], m), eq(p[pos[m]], m)))
    x = z3.Int("ph.x")
    inrange = conj(le(0, x), le(x, m))
    g_y = implies(conj(inrange, eq(x, y)), conj(le(0, pos[x]), le(pos[x], m), eq(p[pos[x]], x)))
    g_m = implies(conj(inrange, eq(x, m)), conj(le(0, pos[x]), le(pos[x], m), eq(p[pos[x]], x)))
    h4 = implies(conj(inrange, ne(x, y), ne(x, m)),
                 conj(eq(pos2[x], pos[x]), le(0, pos2[x]), lt(pos2[x], m), eq(p2[pos2[x]], x)))
    g_o = implies(conj(inrange, ne(x, y), ne(x, m)), conj(le(0, pos[x]), le(pos[x], m), eq(p[pos[x]], x)))
    return [
        ("base", [eq(m, 0)], ph_concl(p, pos, m)),
        ("step_hyp", base, ph_hyp(p2, pos2, m)),
        ("step_h1", base, h1),
        ("step_h2", base + [ih, h1], h2),
        ("step_h3", base + [ih, h1, h2], h3),
        ("step_case_y", base + [h1], g_y),
        ("step_case_m", base + [h1, h2, h3], g_m),
        ("step_h4", base + [ih, h1], h4),
        ("step_case_other", base + [h1, h4], g_o),
        ("step", base + [z3.ForAll([x], z3.And(g_y, g_m, g_o), patterns=[pos[x]])], ph_concl(p, pos, m + 1)),
    ]


lemma("pigeonhole", params={"p": "list[int]", "pos": "list[int]", "m": "int"}, props=PROPS,
      hyp=lambda p, pos, m: [("m", ge(m, 0)), ("inj", ph_hyp(p, pos, m))],
      conclusion=lambda p, pos, m: ph_concl(p, pos, m),
      vcs=_ph_vcs)


def _full_all_gray_vcs(h):
    full = eq(h.last, h.size - 1)
    use_assume = [shape(h), index_inv(h), full, implies(ph_hyp(h.p, h.pos, h.size), ph_concl(h.p, h.pos, h.size))]
    return [("use_pigeonhole", use_assume, forall(0, h.size, lambda x: eq(h.color[x], GRAY)))]


lemma("full_all_gray", params={"h": "obj:Heap"}, props=PROPS,
      hyp=lambda h: [("shape", shape(h)), ("index", index_inv(h))],
      conclusion=lambda h: implies(eq(h.last, h.size - 1), forall(0, h.size, lambda x: eq(h.color[x], GRAY))),
      vcs=_full_all_gray_vcs)


def inj_hyp(f, g, a, b):
    return forall(0, a, lambda i: conj(le(0, f[i]), lt(f[i], b), eq(g[f[i]], i)))


lemma("inj_card", params={"f": "list[int]", "g": "list[int]", "a": "int", "b": "int"}, props=PROPS,
      hyp=lambda f, g, a, b: [("nonneg", conj(ge(a, 0), ge(b, 0))), ("inj", inj_hyp(f, g, a, b))],
      conclusion=lambda f, g, a, b: le(a, b),
      vcs=lambda f, g, a, b: [("use_pigeonhole",
                               [ge(a, 0), ge(b, 0), inj_hyp(f, g, a, b), gt(a, b),
                                implies(ph_hyp(f, g, b + 1), ph_concl(f, g, b + 1))], False)])


# writing the cost of an element that is not queued does not disturb the heap (callers set h.cost[i] directly)
lemma("cost_write", params={"h": "obj:Heap", "x": "int"}, props=PROPS,
      hyp=lambda h, x: [("inv", inv(h)), ("x", conj(le(0, x), lt(x, h.size))), ("not_queued", ne(h.color[x], GRAY))],
      conclusion=_cost_write_conclusion,
      vcs=lambda h, x: [("preserved", [inv(h), le(0, x), lt(x, h.size), ne(h.color[x], GRAY)],
                         inv(with_cost(h, x, __import__("z3").Real("cw.c0"))))])


# ---------------------------------------------------------------- insert / remove / update

def black_stays(h, o):
    return forall(0, o.size, lambda x: implies(eq(o.color[x], BLACK), eq(h.color[x], BLACK)))


contract(H + "insert", params={"self": "obj:Heap", "p": "int", "return": "bool"}, props=PROPS,
         requires=lambda v: [("inv", inv(v.self)),
                             ("p_range", conj(le(0, v.p), lt(v.p, v.self.size))),
                             ("white_unless_full", disj(eq(v.self.last, v.self.size - 1),
                                                        ne(v.self.color[v.p], GRAY)))],
         ensures=lambda v, old, result: [
             ("full_fails", implies(eq(old.self.last, old.self.size - 1),
                                    conj(eq(result, False),
                                         unchanged(v.self, old.self,
                                                   ["size", "policy", "last", "cost", "color", "p", "pos"])))),
             ("ok", implies(ne(old.self.last, old.self.size - 1),
                            conj(eq(result, True), inv(v.self),
                                 eq(v.self.last, old.self.last + 1),
                                 eq(v.self.color[v.p], GRAY),
                                 forall(0, old.self.size,
                                        lambda x: implies(ne(x, v.p), eq(v.self.color[x], old.self.color[x]))),
                                 unchanged(v.self, old.self, ["size", "policy", "cost"])))),
         ],
         modifies=["self.p", "self.pos", "self.color", "self.last"])


contract(H + "remove", params={"self": "obj:Heap", "return": "int"}, props=PROPS,
         requires=lambda v: [("inv", inv(v.self))],
         lemmas=[("entry", "root_best", lambda v: {"h": v.self})],
         ensures=lambda v, old, result: [
             # NB: the code returns the bool False on an empty heap; False == 0 in Python, so callers
             # must test is_empty() first (they do).  The failure report is `result is False`, modelled as 0.
             ("empty_fails", implies(eq(old.self.last, -1),
                                     conj(eq(result, 0),
                                          unchanged(v.self, old.self,
                                                    ["size", "policy", "last", "cost", "color", "p", "pos"])))),
             ("ok", implies(ne(old.self.last, -1),
                            conj(inv(v.self),
                                 le(0, result), lt(result, old.self.size),
                                 eq(old.self.color[result], GRAY),
                                 forall(0, old.self.size,
                                        lambda y: implies(eq(old.self.color[y], GRAY),
                                                          better(old.self, old.self.cost[result],
                                                                 old.self.cost[y]))),
                                 eq(v.self.last, old.self.last - 1),
                                 eq(v.self.color[result], BLACK),
                                 forall(0, old.self.size,
                                        lambda x: implies(ne(x, result),
                                                          eq(v.self.color[x], old.self.color[x]))),
                                 unchanged(v.self, old.self, ["size", "policy", "cost"])))),
         ],
         modifies=["self.p", "self.pos", "self.color", "self.last"])


contract(H + "update", params={"self": "obj:Heap", "p": "int", "cost": "real"}, props=PROPS,
         lemmas=[("entry", "full_all_gray", lambda v: {"h": v.self})],
         requires=lambda v: [("inv", inv(v.self)),
                             ("p_range", conj(le(0, v.p), lt(v.p, v.self.size))),
                             ("white_or_improving",
                              disj(eq(v.self.color[v.p], WHITE),
                                   conj(eq(v.self.color[v.p], GRAY),
                                        better(v.self, v.cost, v.self.cost[v.p]))))],
         ensures=lambda v, old, result: [
             ("inv", inv(v.self)),
             ("cost", conj(eq(v.self.cost[v.p], v.cost),
                           forall(0, old.self.size,
                                  lambda x: implies(ne(x, v.p), eq(v.self.cost[x], old.self.cost[x]))))),
             ("color", conj(eq(v.self.color[v.p], GRAY),
                            forall(0, old.self.size,
                                   lambda x: implies(ne(x, v.p), eq(v.self.color[x], old.self.color[x]))))),
             ("last", eq(v.self.last, ite(eq(old.self.color[v.p], WHITE), old.self.last + 1, old.self.last))),
             ("frame", unchanged(v.self, old.self, ["size", "policy"])),
         ],
         modifies=["self.p", "self.pos", "self.color", "self.last", "self.cost"])


contract(H + "__init__", params={"self": "obj:Heap", "size": "int", "policy": "str"}, props=PROPS,
         requires=lambda v: [("size", ge(v.size, 1)),
                             ("policy", disj(eq(v.policy, "min"), eq(v.policy, "max")))],
         ensures=lambda v, old, result: [
             ("inv", inv(v.self)),
             ("empty", eq(v.self.last, -1)),
             ("size", eq(v.self.size, v.size)), ("policy", eq(v.self.policy, v.policy)),
             ("white", forall(0, v.size, lambda x: eq(v.self.color[x], WHITE))),
             ("cost", forall(0, v.size, lambda x: eq(v.self.cost[x], FLOAT_MAX()))),
         ],
         modifies=["self.size", "self.policy", "self.cost", "self.color", "self.p", "self.pos", "self.last"])


def FLOAT_MAX():
    import sys
    return sys.float_info.max


# offset variants (the k-NN models never reset the conquest-order list: a run occupies ABSOLUTE positions off .. off+a-1
# and the ghost rank stores absolute positions)

def inj_hyp_off(f, g, a, b, off):
    """f maps positions off..off+a-1 into [0, b); g gives back the absolute position"""
    return forall(off, off + a, lambda i: conj(le(0, f[i]), lt(f[i], b), eq(g[f[i]], i)))


def _inj_off_vcs(f, g, a, b, off):
    import z3
    from pyvc.engine import fresh_list
    f2, g2 = fresh_list("io.f2", "int"), fresh_list("io.g2", "int")
    k = z3.Int("io.k")
    d = [z3.ForAll([k], f2[k] == f[off + k], patterns=[f2[k]]),
         z3.ForAll([k], g2[k] == g[k] - off, patterns=[g2[k]])]
    base = [ge(a, 0), ge(b, 0), ge(off, 0), inj_hyp_off(f, g, a, b, off)] + d
    return [("shift", base, inj_hyp(f2, g2, a, b)),
            ("use_inj_card", [ge(a, 0), ge(b, 0), implies(inj_hyp(f2, g2, a, b), le(a, b)), inj_hyp(f2, g2, a, b)], le(a, b))]


lemma("inj_card_off", params={"f": "list[int]", "g": "list[int]", "a": "int", "b": "int", "off": "int"}, props=PROPS,
      hyp=lambda f, g, a, b, off: [("nonneg", conj(ge(a, 0), ge(b, 0), ge(off, 0))), ("inj", inj_hyp_off(f, g, a, b, off))],
      conclusion=lambda f, g, a, b, off: le(a, b), vcs=_inj_off_vcs)


def inj_hyp_goff(f, g, a, b, off):
    """f maps [0, a) into the absolute positions off..off+b-1; g gives back the element"""
    return forall(0, a, lambda i: conj(le(off, f[i]), lt(f[i], off + b), eq(g[f[i]], i)))


def _inj_goff_vcs(f, g, a, b, off):
    import z3
    from pyvc.engine import fresh_list
    f2, g2 = fresh_list("io.f2", "int"), fresh_list("io.g2", "int")
    k = z3.Int("io.k")
    d = [z3.ForAll([k], f2[k] == f[k] - off, patterns=[f2[k]]),
         z3.ForAll([k], g2[k] == g[off + k], patterns=[g2[k]])]
    base = [ge(a, 0), ge(b, 0), ge(off, 0), inj_hyp_goff(f, g, a, b, off)] + d
    return [("shift", base, inj_hyp(f2, g2, a, b)),
            ("use_inj_card", [ge(a, 0), ge(b, 0), implies(inj_hyp(f2, g2, a, b), le(a, b)), inj_hyp(f2, g2, a, b)], le(a, b))]


lemma("inj_card_goff", params={"f": "list[int]", "g": "list[int]", "a": "int", "b": "int", "off": "int"}, props=PROPS,
      hyp=lambda f, g, a, b, off: [("nonneg", conj(ge(a, 0), ge(b, 0), ge(off, 0))), ("inj", inj_hyp_goff(f, g, a, b, off))],
      conclusion=lambda f, g, a, b, off: le(a, b), vcs=_inj_goff_vcs)
