"""Closed forms of the 47 metrics (C06) and the axiom table (C08).

Written from the literature the library follows (Cha 2007, "Comprehensive survey on distance/similarity measures
between probability density functions"; Abu Alfeilat et al. 2019, "Effects of distance measure choice on KNN classifier
performance - a review", which is where the Hassanat / Vicis / max-min-symmetric / mean-censored family comes from),
NOT from the code.  Notation: a = x_i, b = y_i; m.S / m.M / m.C are sum / max / count over i; m.n is the length.
For the metrics wrapped by `avoid_zero_division` the closed form is stated on the shifted arguments (x + EPSILON,
y + EPSILON) - the wrapper's shift itself is a separate (static) obligation - hence their domain is `positive`.

domain: real | nonneg | positive           decorated: whether the registry entry is wrapped by avoid_zero_division
axioms (C08): finite is claimed for all;  sym / nonneg / zero (zero self-distance) / tri (triangle inequality)
"""

MAX_ARC_WEIGHT = 100000     # cross-checked against constants.py by the check


def sqd(m):
    return m.S(lambda a, b: (a - b) * (a - b))


def cosine_ratio(m):
    return m.S(lambda a, b: a * b) / (m.sqrt(m.S(lambda a, b: a * a)) * m.sqrt(m.S(lambda a, b: b * b)))


def hassanat_term(m, a, b):
    lo, hi = m.min(a, b), m.max(a, b)
    return m.where(lo >= 0, 1 - (1 + lo) / (1 + hi), 1 - (1 + lo + m.abs(lo)) / (1 + hi + m.abs(lo)))


METRICS = {
    "additive_symmetric": dict(domain="positive", decorated=True, axioms="sym nonneg zero",
                               form=lambda m: 2 * m.S(lambda a, b: (a - b) * (a - b) * (a + b) / (a * b))),
    "average_euclidean": dict(domain="real", decorated=False, axioms="sym nonneg zero tri",
                              form=lambda m: m.sqrt(sqd(m) / m.n)),
    "bhattacharyya": dict(domain="positive", decorated=True, axioms="sym",
                          form=lambda m: -m.log(m.S(lambda a, b: m.psqrt(a * b)))),
    "bray_curtis": dict(domain="positive", decorated=True, axioms="sym nonneg zero",
                        form=lambda m: m.S(lambda a, b: m.abs(a - b)) / m.S(lambda a, b: a + b)),
    "canberra": dict(domain="positive", decorated=True, axioms="sym nonneg zero tri",
                     form=lambda m: m.S(lambda a, b: m.abs(a - b) / (m.abs(a) + m.abs(b)))),
    "chebyshev": dict(domain="real", decorated=False, axioms="sym nonneg zero tri",
                      form=lambda m: m.M(lambda a, b: m.abs(a - b))),
    "chi_squared": dict(domain="positive", decorated=True, axioms="sym nonneg zero",
                        form=lambda m: 0.5 * m.S(lambda a, b: (a - b) * (a - b) / (a + b))),
    # over the reals 2 - 2cos >= 0 (Cauchy-Schwarz), so the clamp is the identity; it is written out because the
    # radicand is float-fragile (see DESIGN 2.1)
    "chord": dict(domain="positive", decorated=True, axioms="sym nonneg zero",
                  form=lambda m: m.sqrt(m.max(2 - 2 * cosine_ratio(m), 0))),
    "clark": dict(domain="positive", decorated=True, axioms="sym nonneg zero",
                  form=lambda m: m.sqrt(m.S(lambda a, b: ((a - b) / m.abs(a + b)) * ((a - b) / m.abs(a + b))))),
    "cosine": dict(domain="positive", decorated=True, axioms="sym",
                   form=lambda m: 1 - cosine_ratio(m)),
    "dice": dict(domain="positive", decorated=True, axioms="sym",
                 form=lambda m: 1 - 2 * m.S(lambda a, b: a * b) / (m.S(lambda a, b: a * a) + m.S(lambda a, b: b * b))),
    "divergence": dict(domain="positive", decorated=True, axioms="sym nonneg zero",
                       form=lambda m: 2 * m.S(lambda a, b: (a - b) * (a - b) / ((a + b) * (a + b)))),
    "euclidean": dict(domain="real", decorated=False, axioms="sym nonneg zero tri",
                      form=lambda m: m.sqrt(sqd(m))),
    "gaussian": dict(domain="real", decorated=False, axioms="sym",
                     form=lambda m: m.exp(-1 * m.sqrt(sqd(m)))),
    "gower": dict(domain="real", decorated=False, axioms="sym nonneg zero tri",
                  form=lambda m: m.S(lambda a, b: m.abs(a - b)) / m.n),
    "hamming": dict(domain="real", decorated=False, axioms="sym nonneg zero tri",
                    form=lambda m: m.C(lambda a, b: a != b)),
    "hassanat": dict(domain="real", decorated=True, axioms="sym nonneg zero",
                     form=lambda m: m.S(lambda a, b: hassanat_term(m, a, b))),
    "hellinger": dict(domain="nonneg", decorated=False, axioms="sym nonneg zero tri",
                      form=lambda m: m.sqrt(2 * m.S(lambda a, b: (m.psqrt(a) - m.psqrt(b)) * (m.psqrt(a) - m.psqrt(b))))),
    "jaccard": dict(domain="positive", decorated=True, axioms="sym nonneg zero",
                    form=lambda m: sqd(m) / (m.S(lambda a, b: a * a) + m.S(lambda a, b: b * b) - m.S(lambda a, b: a * b))),
    "jeffreys": dict(domain="positive", decorated=True, axioms="sym nonneg zero",
                     form=lambda m: m.S(lambda a, b: (a - b) * m.log(a / b))),
    "jensen": dict(domain="positive", decorated=True, axioms="sym",
                   form=lambda m: 0.5 * m.S(lambda a, b: (a * m.log(a) + b * m.log(b)) / 2
                                            - ((a + b) / 2) * m.log((a + b) / 2))),
    "jensen_shannon": dict(domain="positive", decorated=True, axioms="sym",
                           form=lambda m: 0.5 * (m.S(lambda a, b: a * m.log((2 * a) / (a + b)))
                                                 + m.S(lambda a, b: b * m.log((2 * b) / (a + b))))),
    "k_divergence": dict(domain="positive", decorated=True, axioms="",
                         form=lambda m: m.S(lambda a, b: a * m.log((2 * a) / (a + b)))),
    "kulczynski": dict(domain="positive", decorated=True, axioms="sym nonneg zero",
                       form=lambda m: m.S(lambda a, b: m.abs(a - b)) / m.S(lambda a, b: m.min(a, b))),
    "kullback_leibler": dict(domain="positive", decorated=True, axioms="",
                             form=lambda m: m.S(lambda a, b: a * m.log(a / b))),
    "log_euclidean": dict(domain="real", decorated=False, axioms="sym nonneg zero tri",
                          form=lambda m: MAX_ARC_WEIGHT * m.log(m.sqrt(sqd(m)) + 1)),
    "log_squared_euclidean": dict(domain="real", decorated=False, axioms="sym nonneg zero",
                                  form=lambda m: MAX_ARC_WEIGHT * m.log(sqd(m) + 1)),
    "lorentzian": dict(domain="real", decorated=False, axioms="sym nonneg zero tri",
                       form=lambda m: m.S(lambda a, b: m.log(1 + m.abs(a - b)))),
    "manhattan": dict(domain="real", decorated=False, axioms="sym nonneg zero tri",
                      form=lambda m: m.S(lambda a, b: m.abs(a - b))),
    "matusita": dict(domain="nonneg", decorated=False, axioms="sym nonneg zero tri",
                     form=lambda m: m.sqrt(m.S(lambda a, b: (m.psqrt(a) - m.psqrt(b)) * (m.psqrt(a) - m.psqrt(b))))),
    "max_symmetric": dict(domain="positive", decorated=True, axioms="sym nonneg zero",
                          form=lambda m: m.max(m.S(lambda a, b: (a - b) * (a - b) / a), m.S(lambda a, b: (a - b) * (a - b) / b))),
    "mean_censored_euclidean": dict(domain="positive", decorated=True, axioms="sym nonneg zero",
                                    form=lambda m: m.sqrt(sqd(m) / m.C(lambda a, b: a + b != 0))),
    "min_symmetric": dict(domain="positive", decorated=True, axioms="sym nonneg zero",
                          form=lambda m: m.min(m.S(lambda a, b: (a - b) * (a - b) / a), m.S(lambda a, b: (a - b) * (a - b) / b))),
    "neyman": dict(domain="positive", decorated=True, axioms="nonneg zero",
                   form=lambda m: m.S(lambda a, b: (a - b) * (a - b) / a)),
    "non_intersection": dict(domain="real", decorated=False, axioms="sym nonneg zero tri",
                             form=lambda m: 0.5 * m.S(lambda a, b: m.abs(a - b))),
    "pearson": dict(domain="positive", decorated=True, axioms="nonneg zero",
                    form=lambda m: m.S(lambda a, b: (a - b) * (a - b) / b)),
    "sangvi": dict(domain="positive", decorated=True, axioms="sym nonneg zero",
                   form=lambda m: 2 * m.S(lambda a, b: (a - b) * (a - b) / (a + b))),
    "soergel": dict(domain="positive", decorated=True, axioms="sym nonneg zero tri",
                    form=lambda m: m.S(lambda a, b: m.abs(a - b)) / m.S(lambda a, b: m.max(a, b))),
    "squared": dict(domain="positive", decorated=True, axioms="sym nonneg zero",
                    form=lambda m: m.S(lambda a, b: (a - b) * (a - b) / (a + b))),
    "squared_chord": dict(domain="nonneg", decorated=False, axioms="sym nonneg zero",
                          form=lambda m: m.S(lambda a, b: (m.psqrt(a) - m.psqrt(b)) * (m.psqrt(a) - m.psqrt(b)))),
    "squared_euclidean": dict(domain="real", decorated=False, axioms="sym nonneg zero",
                              form=lambda m: sqd(m)),
    "statistic": dict(domain="positive", decorated=True, axioms="zero",
                      form=lambda m: m.S(lambda a, b: (a - (a + b) / 2) / ((a + b) / 2))),
    "topsoe": dict(domain="positive", decorated=True, axioms="sym",
                   form=lambda m: m.S(lambda a, b: a * m.log((2 * a) / (a + b))) + m.S(lambda a, b: b * m.log((2 * b) / (a + b)))),
    "vicis_symmetric1": dict(domain="positive", decorated=True, axioms="sym nonneg zero",
                             form=lambda m: m.S(lambda a, b: (a - b) * (a - b) / (m.min(a, b) * m.min(a, b)))),
    "vicis_symmetric2": dict(domain="positive", decorated=True, axioms="sym nonneg zero",
                             form=lambda m: m.S(lambda a, b: (a - b) * (a - b) / m.min(a, b))),
    "vicis_symmetric3": dict(domain="positive", decorated=True, axioms="sym nonneg zero",
                             form=lambda m: m.S(lambda a, b: (a - b) * (a - b) / m.max(a, b))),
    "vicis_wave_hedges": dict(domain="positive", decorated=True, axioms="sym nonneg zero",
                              form=lambda m: m.S(lambda a, b: m.abs(a - b) / m.min(a, b))),
}
