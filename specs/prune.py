"""Contract for SupervisedOPF.prune (C17: pruning only discards, labels intact)."""
from pyvc.contracts import contract, LoopSpec
from pyvc.logic import (conj, disj, neg, implies, iff, ite, eq, ne, lt, le, gt, ge, between, forall, exists,
                        length, vmax, vmin, MODE, same_list)
from specs.graph import *  # noqa: F401,F403

S = "opfython.models.supervised.SupervisedOPF."
PR = S + "prune"

# ---- what prune uses of fit / predict / opf_accuracy.  ASSUMED at prune's call sites: the clauses below are part of the
# proven contracts of Subgraph.__init__ / fit / predict, but fit's own precondition (>= 2 classes among the retained
# samples) is not something prune establishes - with a single class left the real code still builds the subgraph.

contract(S + "fit", at_caller=[PR], trusted=True, props=["C17"],
         params={"self": "obj:SupervisedOPF", "X_train": "list[feat]", "Y_train": "list[int]", "I_train": "optlist[int]"},
         requires=lambda v: [("nonempty", ge(length(v.X_train), 1)), ("same_len", eq(length(v.X_train), length(v.Y_train)))],
         ensures=lambda v, old, result: [
             ("rows", conj(eq(length(v.self.subgraph.nodes), length(v.X_train)),
                           forall(0, length(v.X_train), lambda x: conj(
                               eq(v.self.subgraph.nodes[x].features, v.X_train[x]),
                               eq(v.self.subgraph.nodes[x].label, v.Y_train[x])))))],
         modifies=["self.subgraph"])

contract(S + "predict", at_caller=[PR], trusted=True, props=["C17"],
         params={"self": "obj:SupervisedOPF", "X_val": "list[feat]", "I_val": "optlist[int]", "return": "list[int]"},
         requires=lambda v: [("queries", ge(length(v.X_val), 1))],
         ensures=lambda v, old, result: [("len", eq(length(result), length(v.X_val))),
                                         # (from the proven predict/mark_nodes contracts) some conqueror was flagged
                                         ("someone_relevant", exists(0, length(v.self.subgraph.nodes), lambda x: ne(
                                             v.self.subgraph.nodes[x].relevant, IRRELEVANT)))],
         modifies=["self.subgraph.nodes.relevant"])

contract("opfython.math.general.opf_accuracy", at_caller=[PR], trusted=True, props=["C17"],
         params={"labels": "list[int]", "preds": "list[int]", "return": "real"},
         ensures=lambda v, old, result: [])


def rows_of(v, old):
    """the current training arrays are rows g_map[0] < g_map[1] < ... of the ORIGINAL arrays, labels attached"""
    n = length(v.X_train)
    mp = v.g_map
    return [
        ("lens", conj(eq(length(v.Y_train), n), ge(n, 0))),
        ("sub_multiset", forall(0, n, lambda r: conj(le(0, mp[r]), lt(mp[r], length(old.X_train)),
                                                     eq(v.X_train[r], old.X_train[mp[r]]),
                                                     eq(v.Y_train[r], old.Y_train[mp[r]])))),
        ("increasing", forall(0, n, lambda r, s: implies(lt(r, s), lt(mp[r], mp[s])))),
    ]


def model_rows(v):
    sg = v.self.subgraph
    n = length(v.X_train)
    return ("model_rows", conj(eq(length(sg.nodes), n), ge(n, 1),
                               forall(0, n, lambda x: conj(eq(sg.nodes[x].features, v.X_train[x]),
                                                           eq(sg.nodes[x].label, v.Y_train[x])))))


def pr_outer(v, old, le_):
    sg = v.self.subgraph
    return rows_of(v, old) + [model_rows(v), ("initial", ge(v.initial_nodes, 1)),
                              ("someone_relevant", exists(0, length(sg.nodes), lambda x: ne(sg.nodes[x].relevant, IRRELEVANT)))]


def pr_select(v, old, le_):
    sg = v.self.subgraph
    N = sg.nodes
    k = v.loop1_k
    m = length(v.X_temp)
    sel = v.g_sel
    return rows_of(v, old) + [model_rows(v), ("initial", ge(v.initial_nodes, 1)),
        ("someone_relevant", exists(0, length(N), lambda x: ne(N[x].relevant, IRRELEVANT))),
        ("k", conj(le(k, length(N)), eq(length(v.Y_temp), m), le(m, k))),
        ("selected", forall(0, m, lambda r: conj(le(0, sel[r]), lt(sel[r], k), ne(N[sel[r]].relevant, IRRELEVANT),
                                                 eq(v.X_temp[r], v.X_train[sel[r]]), eq(v.Y_temp[r], v.Y_train[sel[r]])))),
        ("sel_increasing", forall(0, m, lambda r, s: implies(lt(r, s), lt(sel[r], sel[s])))),
        # every relevant sample among the first k has been retained
        ("all_relevant_kept", forall(0, k, lambda j: implies(ne(N[j].relevant, IRRELEVANT),
                                                             conj(le(0, v.g_pos[j]), lt(v.g_pos[j], m), eq(sel[v.g_pos[j]], j))))),
    ]


contract(PR,
         params={"self": "obj:SupervisedOPF", "X_train": "list[feat]", "Y_train": "list[int]", "X_val": "list[feat]",
                 "Y_val": "list[int]", "n_iterations": "int"},
         props=["C17"], locals_types={"X_temp": "list[feat]", "Y_temp": "list[int]"}, split=True,
         requires=lambda v: [("nonempty", ge(length(v.X_train), 1)), ("same_len", eq(length(v.X_train), length(v.Y_train))),
                             ("queries", ge(length(v.X_val), 1))],
         ensures=lambda v, old, result: [] if MODE.kind != "sym" else (rows_of(v, old) + [
             # the model left behind is built on exactly those rows
             ("final_model", forall(0, length(v.self.subgraph.nodes), lambda x: conj(
                 eq(v.self.subgraph.nodes[x].features, old.X_train[v.g_map[x]]),
                 eq(v.self.subgraph.nodes[x].label, old.Y_train[v.g_map[x]])))),
             ("final_size", eq(length(v.self.subgraph.nodes), length(v.X_train)))]),
         modifies=["self.subgraph"],
         ghost=[("entry", "g_map = [t for t in range(len(X_train))]"),
                ("after:X_temp, Y_temp = ([], [])", "g_sel = [0 for _ in range(self.subgraph.n_nodes)]\n"
                                                   "g_pos = [0 for _ in range(self.subgraph.n_nodes)]"),
                ("after:X_temp.append(X_train[j, :])", "g_sel[len(X_temp) - 1] = j\ng_pos[j] = len(X_temp) - 1"),
                ("after:Y_train = np.asarray(Y_temp)", "g_map = [g_map[g_sel[t]] for t in range(len(X_temp))]")],
         raises=None,
         loops=[LoopSpec("for", var="t", inv=pr_outer),
                LoopSpec("for", var="(j, n)", inv=pr_select)])
