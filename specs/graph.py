"""Schemas and shared predicates for Node / Subgraph / OPF models (C01-C04, C09-C17)."""
import sys

from pyvc.contracts import contract, schema
from pyvc.logic import (conj, disj, neg, implies, iff, ite, eq, ne, lt, le, gt, ge, between, forall, exists,
                        length, vmax, vmin, is_z3, MODE)

WHITE, GRAY, BLACK = 0, 1, 2
NIL = -1
STANDARD, PROTOTYPE = 0, 1
IRRELEVANT, RELEVANT = 0, 1
FLOAT_MAX = sys.float_info.max
MAX_DENSITY = 1000

schema("Node", idx="int", label="int", predicted_label="int", cluster_label="int", features="feat", cost="real",
       density="real", radius="real", n_plateaus="int", adjacency="list[int]", root="int", status="int",
       pred="int", relevant="int")
schema("Subgraph", nodes="nodes", idx_nodes="list[int]", trained="bool", n_features="int", n_nodes_="int")
schema("KNNSubgraph", base="Subgraph", n_clusters="int", best_k="int", constant="real", density="real",
       min_density="real", max_density="real")
schema("OPF", subgraph="obj:Subgraph", pre_computed_distance="bool", distance_fn="fn", pre_distances="matrix",
       distance="str")
schema("SupervisedOPF", base="OPF")
schema("SemiSupervisedOPF", base="OPF")


def W(m, p, q):
    """arc weight between training nodes p and q, exactly as the code reads it"""
    sg = m.subgraph
    if isinstance(m.pre_computed_distance, bool):
        if m.pre_computed_distance:
            return m.pre_distances[sg.nodes[p].idx][sg.nodes[q].idx]
        return m.distance_fn(sg.nodes[p].features, sg.nodes[q].features)
    return ite(m.pre_computed_distance,
               m.pre_distances[sg.nodes[p].idx][sg.nodes[q].idx],
               m.distance_fn(sg.nodes[p].features, sg.nodes[q].features))


def W_terms(m, p, q):
    """the uninterpreted applications inside W(m, p, q) (trigger terms for clauses about arc weights)"""
    import z3
    t = W(m, p, q)
    if z3.is_app(t) and t.decl().kind() == z3.Z3_OP_ITE:
        return [t.arg(1), t.arg(2)]
    return [t]


def metric_hyp(symmetric=True):
    """hypotheses of the properties on the dissimilarity: finite (< FLOAT_MAX), non-negative, symmetric.
    Stated on the uninterpreted DFN / PRE for ALL arguments; on real objects (run-time twin) they are the
    responsibility of the harness, which only feeds such inputs."""
    if MODE.kind != "sym":
        return True
    import z3
    from pyvc.engine import DFN, PRE, FEAT
    a, b = z3.Ints("ha hb")
    f, g = z3.Consts("hf hg", FEAT)
    from pyvc.logic import realval
    fm = realval(FLOAT_MAX)
    if not symmetric:
        return z3.And(
            z3.ForAll([a, b], z3.And(PRE(a, b) >= 0, PRE(a, b) < fm), patterns=[PRE(a, b)]),
            z3.ForAll([f, g], z3.And(DFN(f, g) >= 0, DFN(f, g) < fm), patterns=[DFN(f, g)]))
    return z3.And(
        z3.ForAll([a, b], z3.And(PRE(a, b) >= 0, PRE(a, b) < fm, PRE(a, b) == PRE(b, a)), patterns=[PRE(a, b)]),
        z3.ForAll([f, g], z3.And(DFN(f, g) >= 0, DFN(f, g) < fm, DFN(f, g) == DFN(g, f)), patterns=[DFN(f, g)]))


def sg_shape(sg):
    n = length(sg.nodes)
    return conj(ge(n, 1))


def statuses_ok(sg):
    n = length(sg.nodes)
    return forall(0, n, lambda x: disj(eq(sg.nodes[x].status, STANDARD), eq(sg.nodes[x].status, PROTOTYPE)))


def node_static_same(sg, o, fields=("idx", "label", "features")):
    """per-node fields that training never changes"""
    n = length(o.nodes)
    return conj(eq(length(sg.nodes), n),
                forall(0, n, lambda x: conj(*[eq(getattr(sg.nodes[x], f), getattr(o.nodes[x], f)) for f in fields])))
