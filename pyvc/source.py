"""Front end: re-reads the real source of /repo on every run (DESIGN 1.1)."""
import ast
import hashlib
import os

REPO = os.environ.get("VERIF_REPO", "/repo")


class ClassInfo:
    def __init__(self, name, module, node):
        self.name = name
        self.module = module
        self.node = node
        self.bases = []
        for b in node.bases:
            if isinstance(b, ast.Name):
                self.bases.append(b.id)
            elif isinstance(b, ast.Attribute):
                self.bases.append(b.attr)
        self.methods = {}
        self.getters = {}
        self.setters = {}
        for st in node.body:
            if isinstance(st, ast.FunctionDef):
                decs = [ast.unparse(d) for d in st.decorator_list]
                if "property" in decs:
                    self.getters[st.name] = st
                elif any(d.endswith(".setter") for d in decs):
                    self.setters[st.name] = st
                else:
                    self.methods[st.name] = st


class Repo:
    def __init__(self, root=None):
        self.root = root or REPO
        self.modules = {}
        self.sources = {}
        self.classes = {}
        self.functions = {}   # qualname -> (FunctionDef, modname, classname|None)
        pkg = os.path.join(self.root, "opfython")
        for d, _, files in os.walk(pkg):
            for f in sorted(files):
                if not f.endswith(".py"):
                    continue
                path = os.path.join(d, f)
                rel = os.path.relpath(path, self.root)[:-3].replace(os.sep, ".")
                if rel.endswith(".__init__"):
                    rel = rel[: -len(".__init__")]
                with open(path) as fh:
                    src = fh.read()
                try:
                    tree = ast.parse(src)
                except SyntaxError:
                    continue
                self.modules[rel] = tree
                self.sources[rel] = src
                for st in tree.body:
                    if isinstance(st, ast.ClassDef):
                        ci = ClassInfo(st.name, rel, st)
                        self.classes[st.name] = ci
                        for nm, fn in list(ci.methods.items()):
                            self.functions["%s.%s.%s" % (rel, st.name, nm)] = (fn, rel, st.name)
                    elif isinstance(st, ast.FunctionDef):
                        self.functions["%s.%s" % (rel, st.name)] = (st, rel, None)
                        # nested functions (decorator wrapper)
                        for sub in ast.walk(st):
                            if isinstance(sub, ast.FunctionDef) and sub is not st:
                                self.functions["%s.%s.%s" % (rel, st.name, sub.name)] = (sub, rel, None)
        self.constants = self._load_constants()

    def _load_constants(self):
        src = self.sources.get("opfython.utils.constants", "")
        ns = {}
        exec(compile(src, "constants.py", "exec"), ns)  # plain literals + sys.float_info.max
        return {k: v for k, v in ns.items() if k.isupper()}

    def mro(self, cls):
        out = []
        todo = [cls]
        while todo:
            c = todo.pop(0)
            if c in self.classes and c not in out:
                out.append(c)
                todo.extend(self.classes[c].bases)
        return out

    def find_method(self, cls, name):
        for c in self.mro(cls):
            ci = self.classes[c]
            if name in ci.methods:
                return c, ci.methods[name]
        return None, None

    def find_getter(self, cls, name):
        for c in self.mro(cls):
            ci = self.classes[c]
            if name in ci.getters:
                return c, ci.getters[name]
        return None, None

    def find_setter(self, cls, name):
        for c in self.mro(cls):
            ci = self.classes[c]
            if name in ci.setters:
                return c, ci.setters[name]
        return None, None

    def function(self, qualname):
        if qualname not in self.functions:
            raise KeyError("function not found in %s: %s" % (self.root, qualname))
        return self.functions[qualname]

    def module_aliases(self, modname):
        """import table of a module: alias -> ('module', dotted) | ('name', dotted.module, name)"""
        out = {}
        for st in self.modules[modname].body:
            if isinstance(st, ast.Import):
                for a in st.names:
                    out[a.asname or a.name.split(".")[0]] = ("module", a.name)
            elif isinstance(st, ast.ImportFrom):
                for a in st.names:
                    out[a.asname or a.name] = ("name", st.module, a.name)
        return out


def strip_docstring(fn):
    body = list(fn.body)
    if body and isinstance(body[0], ast.Expr) and isinstance(getattr(body[0], "value", None), ast.Constant) \
            and isinstance(body[0].value.value, str):
        body = body[1:]
    return body


def normalized_hash(fn):
    """hash of the function's AST without docstring, annotations and logging calls"""
    class Strip(ast.NodeTransformer):
        def visit_FunctionDef(self, node):
            node = self.generic_visit(node)
            node.returns = None
            node.body = strip_docstring(node) or [ast.Pass()]
            for a in node.args.args + node.args.kwonlyargs:
                a.annotation = None
            return node

        def visit_Expr(self, node):
            if isinstance(node.value, ast.Call) and isinstance(node.value.func, ast.Attribute) \
                    and isinstance(node.value.func.value, ast.Name) and node.value.func.value.id == "logger":
                return None
            return node
    import copy
    t = Strip().visit(copy.deepcopy(fn))
    return hashlib.sha256(ast.dump(t).encode()).hexdigest()[:16]
