"""pyvc: verification-condition generator for the real Python source of /repo (DESIGN 1).

Forward symbolic execution of the function's AST; loops are cut by the sidecar invariants,
calls are replaced by the callee's contract (or inlined for property getters/setters and
functions marked inline); every assert-like point becomes one named obligation.
"""
import ast
import itertools
import os
import sys
import time

import z3

from . import logic as L
from .contracts import REGISTRY, SCHEMAS, LEMMAS, EXTERNALS, CALL_OVERRIDES
from .source import Repo, strip_docstring

INT, REAL, BOOL = z3.IntSort(), z3.RealSort(), z3.BoolSort()
FEAT = z3.DeclareSort("Feat")
DFN = z3.Function("DFN", FEAT, FEAT, REAL)
PRE = z3.Function("PRE", INT, INT, REAL)
EXP = z3.Function("EXP", REAL, REAL)
FDIM = z3.Function("FDIM", FEAT, INT)      # length of a feature vector (>= 1)

_ids = itertools.count()


class Unsupported(Exception):
    pass


class SpecDrift(Exception):
    pass


# ----------------------------------------------------------------------------------------
# values


class SList:
    __slots__ = ("arr", "length", "elem", "view_of_matrix")

    def __init__(self, arr, length, elem):
        self.arr, self.length, self.elem = arr, length, elem
        self.view_of_matrix = False

    def __getitem__(self, i):
        return z3.Select(self.arr, L.lift(i, INT))

    def same(self, other):
        return isinstance(other, SList) and self.arr.eq(other.arr) and _zeq(self.length, other.length)


class SMat:
    """2-D float array: rows are arrays; nrows x ncols"""
    __slots__ = ("arr", "nrows", "ncols")

    def __init__(self, arr, nrows, ncols):
        self.arr, self.nrows, self.ncols = arr, nrows, ncols

    def __getitem__(self, i):
        return SList(z3.Select(self.arr, L.lift(i, INT)), self.ncols, "real")

    @property
    def length(self):
        return self.nrows


class ObjRef:
    __slots__ = ("oid", "cls")

    def __init__(self, oid, cls):
        self.oid, self.cls = oid, cls


class NodeList:
    __slots__ = ("oid",)

    def __init__(self, oid):
        self.oid = oid


class NodeRef:
    __slots__ = ("oid", "idx")

    def __init__(self, oid, idx):
        self.oid, self.idx = oid, idx


class Matrix:
    """pre-computed distance matrix: reads are applications of the uninterpreted PRE"""

    def __getitem__(self, a):
        return MatrixRow(a)

    @property
    def shape(self):
        return (z3.Int("PRE_ROWS"), z3.Int("PRE_COLS"))


class MatrixRow:
    def __init__(self, a):
        self.a = a

    def __getitem__(self, b):
        return PRE(L.lift(self.a, INT), L.lift(b, INT))


class FnVal:
    """the model's distance function: applications of the uninterpreted DFN"""

    def __call__(self, a, b):
        return DFN(a, b)


class Opt:
    """Optional[list]: `present` is a z3 Bool (or Python bool), `value` the list when present"""

    def __init__(self, present, value):
        self.present, self.value = present, value

    def __getitem__(self, i):
        return self.value[i]


class ModRef:
    def __init__(self, kind, name):
        self.kind, self.name = kind, name


class ClassVal:
    def __init__(self, name):
        self.name = name


class ExcVal:
    def __init__(self, name):
        self.name = name


class BoundMethod:
    def __init__(self, recv, name):
        self.recv, self.name = recv, name


class Unbound:
    pass


UNBOUND = Unbound()


def _zeq(a, b):
    if L.is_z3(a) and L.is_z3(b):
        return a.eq(b)
    if L.is_z3(a) or L.is_z3(b):
        return False
    return type(a) == type(b) and a == b


def sort_of(elem):
    return {"int": INT, "real": REAL, "bool": BOOL, "feat": FEAT, "str": INT}[elem]


def fresh(prefix, sort):
    return z3.Const("%s!%d" % (prefix, next(_ids)), sort)


def fresh_list(prefix, elem, length=None):
    arr = fresh(prefix, z3.ArraySort(INT, sort_of(elem)))
    if length is None:
        length = fresh(prefix + ".len", INT)
    return SList(arr, length, elem)


# ----------------------------------------------------------------------------------------
# state


class State:
    def __init__(self):
        self.locals = {}
        self.defined = {}     # name -> z3 Bool (only for maybe-unbound names)
        self.heap = {}
        self.pc = []
        self.path = []
        self.fresh_objs = set()
        self.facts = {}       # name -> latest assumed clause of that name (requires, invariants, proven hints)

    def copy(self):
        s = State()
        s.locals = dict(self.locals)
        s.defined = dict(self.defined)
        s.heap = {k: dict(v) for k, v in self.heap.items()}
        s.pc = list(self.pc)
        s.path = list(self.path)
        s.fresh_objs = set(self.fresh_objs)
        s.facts = dict(self.facts)
        return s

    def assume(self, t, name=None):
        if t is True:
            return
        t = L.to_z3_bool(t)
        self.pc.append(t)
        if name is not None:
            self.facts[name] = t


def merge_values(c, a, b):
    if a is b:
        return a
    if isinstance(a, SList) and isinstance(b, SList):
        if a.same(b):
            return a
        if a.elem != b.elem:
            raise Unsupported("merge of lists with different element sorts")
        return SList(z3.If(c, a.arr, b.arr), L.ite(c, a.length, b.length), a.elem)
    if isinstance(a, SMat) and isinstance(b, SMat):
        return SMat(z3.If(c, a.arr, b.arr), L.ite(c, a.nrows, b.nrows), L.ite(c, a.ncols, b.ncols))
    if isinstance(a, ObjRef) and isinstance(b, ObjRef):
        if a.oid == b.oid:
            return a
        raise Unsupported("merge of distinct objects")
    if isinstance(a, NodeList) and isinstance(b, NodeList) and a.oid == b.oid:
        return a
    if isinstance(a, NodeRef) and isinstance(b, NodeRef) and a.oid == b.oid:
        return NodeRef(a.oid, L.ite(c, a.idx, b.idx))
    if isinstance(a, tuple) and isinstance(b, tuple) and len(a) == len(b):
        return tuple(merge_values(c, x, y) for x, y in zip(a, b))
    if a is None and b is None:
        return None
    if isinstance(a, (Matrix, FnVal)) and type(a) == type(b):
        return a
    if isinstance(a, Opt) and isinstance(b, Opt):
        return Opt(L.ite(c, L.to_z3_bool(a.present), L.to_z3_bool(b.present)), merge_values(c, a.value, b.value))
    if isinstance(a, str) and isinstance(b, str):
        if a == b:
            return a
        return z3.If(c, z3.IntVal(L.strcode(a)), z3.IntVal(L.strcode(b)))
    if isinstance(a, (int, float, bool)) or L.is_z3(a):
        if isinstance(b, (int, float, bool)) or L.is_z3(b):
            if _zeq(a, b):
                return a
            if isinstance(a, bool) and not L.is_z3(b) and not isinstance(b, bool):
                raise Unsupported("merge bool/number")
            return L.ite(c, a, b)
    raise Unsupported("cannot merge values %r / %r" % (a, b))


def merge_states(c, a, b, base_pc_len):
    """state after `if c: A else: B` where a, b are the (single) fall-through states"""
    s = State()
    s.fresh_objs = a.fresh_objs | b.fresh_objs
    s.path = list(a.path[: min(len(a.path), len(b.path))])
    # path: keep the common prefix only
    k = 0
    while k < len(a.path) and k < len(b.path) and a.path[k] is b.path[k]:
        k += 1
    s.path = list(a.path[:k])
    s.facts = {}
    for k in set(a.facts) | set(b.facts):
        fa, fb = a.facts.get(k), b.facts.get(k)
        if fa is not None and fb is not None and fa.get_id() == fb.get_id():
            s.facts[k] = fa
        else:      # known on one arm only (or differently): the clause guarded by the arm's condition
            parts = []
            if fa is not None:
                parts.append(z3.Implies(c, fa))
            if fb is not None:
                parts.append(z3.Implies(z3.Not(c), fb))
            s.facts[k] = z3.And(*parts) if len(parts) > 1 else parts[0]
    s.pc = list(a.pc[:base_pc_len])
    ea = a.pc[base_pc_len:]
    eb = b.pc[base_pc_len:]
    # the facts gathered on each arm, guarded by the arm's condition: the quantifier-free ones together, the quantified
    # ones one by one (focused obligations pick the ground facts and named clauses only)
    for cond, es in ((c, ea), (z3.Not(c), eb)):
        ground = [e for e in es if not _has_quantifier(e)]
        if ground:
            s.pc.append(z3.Implies(cond, z3.And(*ground) if len(ground) > 1 else ground[0]))
        for e in es:
            if _has_quantifier(e):
                s.pc.append(z3.Implies(cond, e))
    for name in sorted(set(a.locals) | set(b.locals)):
        va = a.locals.get(name, UNBOUND)
        vb = b.locals.get(name, UNBOUND)
        da = a.defined.get(name, True) if va is not UNBOUND else False
        db = b.defined.get(name, True) if vb is not UNBOUND else False
        if va is UNBOUND and vb is UNBOUND:
            continue
        if va is UNBOUND:
            s.locals[name] = vb
        elif vb is UNBOUND:
            s.locals[name] = va
        else:
            s.locals[name] = merge_values(c, va, vb)
        if da is True and db is True:
            pass
        else:
            s.defined[name] = L.ite(c, L.to_z3_bool(da), L.to_z3_bool(db))
    for oid in sorted(set(a.heap) | set(b.heap)):
        fa = a.heap.get(oid)
        fb = b.heap.get(oid)
        if fa is None or fb is None:
            s.heap[oid] = dict(fa or fb)
            continue
        d = {}
        for f in sorted(set(fa) | set(fb)):
            if f in fa and f in fb:
                d[f] = merge_values(c, fa[f], fb[f])
            else:
                d[f] = fa.get(f, fb.get(f))
        s.heap[oid] = d
    return s


# ----------------------------------------------------------------------------------------
# views for the specification language


class NS:
    """namespace handed to spec lambdas: attributes are locals (wrapped)"""

    def __init__(self, ex, st, extra=None, mode="verify", callcache=None):
        object.__setattr__(self, "_ex", ex)
        object.__setattr__(self, "_st", st)
        object.__setattr__(self, "_extra", extra or {})
        object.__setattr__(self, "_mode", mode)
        object.__setattr__(self, "_callcache", callcache if callcache is not None else {})

    def __getattr__(self, name):
        if name in self._extra:
            return self._extra[name]
        if name not in self._st.locals:
            ty = getattr(self._ex, "contract", None) and self._ex.contract.locals_types.get(name)
            if ty:
                # a typed local that is not bound yet (e.g. assigned only inside the loop): an arbitrary value;
                # clauses about it must be guarded by v.defined(name)
                self._extra[name] = self._ex.fresh_param(self._st, "unbound." + name, ty)
                return self._extra[name]
            raise SpecDrift("spec refers to local `%s` which is not bound here" % name)
        return wrap(self._ex, self._st, self._st.locals[name])

    def defined(self, name):
        if name not in self._st.locals:
            return False
        return self._st.defined.get(name, True)

    def ghost(self, name, ty):
        """logical witness variable of a contract (explicit skolemisation of an existential).
        While the function itself is verified: the ghost local `name` if there is one, else one fixed witness per
        function (an existential in the REQUIRES is assumed, one in the ENSURES must be established for the ghost local).
        At a call site: a requires-side witness is looked up in the caller (ghost local, or the caller's current
        witness of that name - e.g. obtained from an earlier callee's postcondition); an ensures-side witness is fresh
        per call and becomes the caller's current witness of that name (like a ghost variable havocked by the call)."""
        mode = self._mode
        ex = self._ex
        if mode == "call_post":
            if name not in self._callcache:
                self._callcache[name] = ex.fresh_param(self._st, "wit." + name, ty)
                ex.vghost[name] = self._callcache[name]
            return self._callcache[name]
        if name in self._st.locals:
            return wrap(ex, self._st, self._st.locals[name])
        if name not in ex.vghost:
            ex.vghost[name] = ex.fresh_param(self._st, "wit." + name, ty)
        return ex.vghost[name]

    def ghostfn(self, name, argsorts, ressort):
        """uninterpreted ghost FUNCTION of a contract (e.g. a partial-sum function defined by recursion in the
        contract's `defs`): one fixed symbol while the function itself is verified, a fresh symbol per call site"""
        key = "fn:" + name
        cache = self._callcache if self._mode != "verify" else self._ex.vghost
        if key not in cache:
            tag = name if self._mode == "verify" else "%s!%d" % (name, next(_ids))
            cache[key] = z3.Function(tag, *[sort_of(a) for a in argsorts], sort_of(ressort))
        return cache[key]

    def has(self, name):
        return name in self._st.locals


def wrap(ex, st, v):
    if isinstance(v, SList):
        return SList(ex.named(v.arr), v.length, v.elem)
    if isinstance(v, SMat):
        return SMat(ex.named(v.arr), v.nrows, v.ncols)
    if isinstance(v, ObjRef):
        return ObjView(ex, st, v)
    if isinstance(v, NodeList):
        return NodeListView(ex, st, v.oid)
    if isinstance(v, NodeRef):
        return NodeView(ex, st, v.oid, v.idx)
    return v


class ObjView:
    def __init__(self, ex, st, ref):
        self._ex, self._st, self._ref = ex, st, ref

    def __getattr__(self, f):
        fields = self._st.heap[self._ref.oid]
        if f == "nodes" and "nodes.len" in fields:
            return NodeListView(self._ex, self._st, self._ref.oid)
        if f == "n_nodes" and "nodes.len" in fields:
            return fields["nodes.len"]
        if f in fields:
            return wrap(self._ex, self._st, fields[f])
        if f == "n_nodes" and "nodes.len" in fields:
            return fields["nodes.len"]
        raise SpecDrift("spec reads unknown field %s.%s" % (self._ref.cls, f))


class NodeListView:
    def __init__(self, ex, st, oid):
        self._ex, self._st, self._oid = ex, st, oid

    @property
    def length(self):
        return self._st.heap[self._oid]["nodes.len"]

    def __getitem__(self, i):
        return NodeView(self._ex, self._st, self._oid, L.lift(i, INT))

    def field(self, name):
        """a (scalar) node field of all nodes as one list, e.g. nodes.field('cluster_label')"""
        fields = self._st.heap[self._oid]
        return SList(self._ex.named(fields["nodes." + name]), fields["nodes.len"], SCHEMAS["Node"][name])


class NodeView:
    def __init__(self, ex, st, oid, idx):
        self._ex, self._st, self._oid, self._idx = ex, st, oid, idx

    def __getattr__(self, f):
        return self._ex.node_get(self._st, self._oid, self._idx, f, named=True)


# ----------------------------------------------------------------------------------------
# obligations


class Obligation:
    def __init__(self, name, kind, goal, assumptions, lineno, text):
        self.name, self.kind, self.goal, self.assumptions = name, kind, goal, assumptions
        self.lineno, self.text = lineno, text
        self.status = None
        self.seconds = 0.0
        self.model = None
        self.solver = None

    def smt2(self):
        s = z3.Solver()
        for a in getattr(self, "defs", []):
            s.add(a)
        for a in self.assumptions:
            s.add(a)
        s.add(z3.Not(self.goal))
        return s.to_smt2()


_SYMCACHE = {}


def _symbols(t):
    k = t.get_id()
    if k in _SYMCACHE:
        return _SYMCACHE[k]
    out = set()
    seen = set()
    todo = [t]
    while todo:
        x = todo.pop()
        if x.get_id() in seen:
            continue
        seen.add(x.get_id())
        if z3.is_quantifier(x):
            todo.append(x.body())
            continue
        if z3.is_app(x):
            d = x.decl()
            if d.kind() == z3.Z3_OP_UNINTERPRETED:
                out.add(d.name())
            todo.extend(x.children())
    _SYMCACHE[k] = out
    return out


def _relevant(assumptions, goal, rounds=2):
    asyms = [_symbols(a) for a in assumptions]
    # symbols that occur almost everywhere (lengths, the model object ...) carry no relevance information
    count = {}
    for ss in asyms:
        for x in ss:
            count[x] = count.get(x, 0) + 1
    ubiq = {x for x, c in count.items() if c > max(8, len(assumptions) // 4)}
    syms = set(_symbols(goal)) - ubiq
    chosen = [False] * len(assumptions)
    asyms = [ss - ubiq for ss in asyms]
    for _ in range(rounds):
        grew = False
        for i, a in enumerate(assumptions):
            if not chosen[i] and (asyms[i] & syms or not asyms[i]):
                chosen[i] = True
                grew = True
        new = set()
        for i, c in enumerate(chosen):
            if c:
                new |= asyms[i]
        if new <= syms and not grew:
            break
        syms |= new
    return [a for a, c in zip(assumptions, chosen) if c]


def _has_quantifier(t):
    seen = set()
    stack = [t]
    while stack:
        x = stack.pop()
        if x.get_id() in seen:
            continue
        seen.add(x.get_id())
        if z3.is_quantifier(x):
            return True
        if z3.is_app(x):
            stack.extend(x.children())
    return False


def solve(ob, timeout_ms=20000):
    t0 = time.time()
    g = ob.goal
    if ob.kind == "cover":
        # vacuity guard: the hypotheses alone must not be contradictory (sat or unknown is fine)
        s = z3.Solver()
        s.set("timeout", 3000)
        s.set("auto_config", False)
        s.set("smt.mbqi", False)
        for a in getattr(ob, "defs", []):
            s.add(a)
        for a in ob.assumptions:
            s.add(a)
        r = s.check()
        ob.seconds = time.time() - t0
        ob.solver = "z3-" + z3.get_version_string()
        ob.status = "unsat" if r != z3.unsat else "vacuous"
        return ob
    if g is True or (L.is_z3(g) and z3.is_true(g)):
        ob.status, ob.solver = "unsat", getattr(ob, "backend", "static")
        return ob
    if getattr(ob, "inconclusive", False) and (g is False or (L.is_z3(g) and z3.is_false(g))):
        # a shape / may-analysis obligation that did not recognise the code: not a refutation
        ob.status, ob.solver = "unknown", "static"
        ob.reason = "code shape not recognised by this syntactic obligation (no verdict)"
        return ob
    if g is False:
        g = z3.BoolVal(False)
    # Portfolio.  Every stage only DROPS assumptions or changes the search (sound); `unsat` from any stage discharges the
    # obligation.  Quantifier instantiation is chaotic (the same query goes through in 0.1 s or not in 10 s depending on
    # the seed), so several short attempts beat one long one:
    #   focus      ground facts + the clauses named by the contract (or the invariant itself and the frame)
    #   full       everything, E-matching only
    #   relevance  assumptions sharing non-ubiquitous symbols with the goal (1 / 2 rounds of closure)
    #   mbqi       z3's default configuration (model-based instantiation on)
    defs = list(getattr(ob, "defs", []))
    alla = defs + list(ob.assumptions)
    scale = timeout_ms / 20000.0
    rel_cache = {}

    def relevant(rounds):
        if rounds not in rel_cache:
            try:
                rel = _relevant(alla, g, rounds=rounds)
            except Exception:
                rel = None
            if rel is not None and (len(rel) >= len(alla) or any(r is not None and len(r) == len(rel)
                                                                   for r in rel_cache.values())):
                rel = None
            rel_cache[rounds] = rel
        return rel_cache[rounds]

    stages = []
    if getattr(ob, "focus", None):
        stages += [("focus", False, 1500, 0), ("focus", False, 3000, 3)]
    stages += [("full", False, 1500, 0), ("relevance1", False, 2000, 0), ("relevance2", False, 3000, 0),
               ("full", False, 2000, 1), ("full", False, 3000, 2), ("relevance2", False, 4000, 4),
               ("full", False, 5000, 7), ("mbqi", True, 10000, 0), ("full", False, 10000, 11), ("mbqi", True, 20000, 5)]
    r = z3.unknown
    for (what, mbqi, tmo, seed) in stages:
        if what == "focus":
            facts = defs + list(ob.focus)
        elif what.startswith("relevance"):
            facts = relevant(int(what[-1]))
            if facts is None:
                continue
        else:
            facts = alla
        s = z3.Solver()
        s.set("timeout", max(1000, int(tmo * scale)))
        if seed:
            s.set("smt.random_seed", seed)
        if not mbqi:
            s.set("auto_config", False)
            s.set("smt.mbqi", False)
        for a in facts:
            s.add(a)
        s.add(z3.Not(g))
        t1 = time.time()
        r = s.check()
        if os.environ.get("PYVC_TRACE"):
            sys.stderr.write("  [trace] %s %s seed=%d %d/%d: %s %.1fs\n"
                             % (ob.name, what, seed, len(facts), len(alla), r, time.time() - t1))
        ob.solver = "z3-" + z3.get_version_string() + "/" + ("default" if mbqi else "ematching" +
                                                             ("" if what == "full" else "+" + what))
        if r == z3.unsat:
            break
        if r == z3.sat and facts is alla:
            # a model of the negated goal over the FULL context (a subset proves nothing when it is satisfiable)
            try:
                ob.model = s.model()
            except z3.Z3Exception:
                pass
            break
        if r == z3.sat:
            r = z3.unknown
        try:
            ob.reason = s.reason_unknown()
        except z3.Z3Exception:
            pass
    ob.seconds = time.time() - t0
    ob.status = str(r)
    return ob


# ----------------------------------------------------------------------------------------
# the executor


class Exec:
    def __init__(self, repo, qualname, config=None, bounded=None):
        self.repo = repo
        self.qualname = qualname
        self.contract = REGISTRY[qualname]
        self.fn, self.modname, self.clsname = repo.function(qualname)
        self.aliases = repo.module_aliases(self.modname)
        self.config = config or {}
        self.obligations = []
        self.loop_counter = 0
        self.old = None
        self.notes = []
        self.obl_names = {}
        self.cur_fn_stack = []
        self.bounded = bounded
        self.names = {}
        self.defs = []
        self._verify_ns = set()
        self._verify_keep = []
        self.vghost = {}

    # ---------------- object allocation from schemas

    def new_object(self, st, cls, prefix, symbolic=True):
        oid = "%s#%d" % (prefix, next(_ids))
        if cls not in SCHEMAS:
            raise Unsupported("no schema for class %s" % cls)
        fields = {}
        st.heap[oid] = fields
        for f, ty in SCHEMAS[cls].items():
            fields.update(self.fresh_field(st, prefix + "." + f, f, ty))
        return ObjRef(oid, cls)

    def fresh_field(self, st, prefix, f, ty):
        if ty in ("int", "real", "bool", "feat"):
            return {f: fresh(prefix, sort_of(ty))}
        if ty == "str":
            return {f: fresh(prefix, INT)}
        if ty.startswith("list["):
            return {f: fresh_list(prefix, ty[5:-1])}
        if ty.startswith("obj:"):
            return {f: self.new_object(st, ty[4:], prefix)}
        if ty.startswith("optobj:"):
            return {f: self.new_object(st, ty[7:], prefix)}
        if ty == "nodes":
            out = {"nodes": None, "nodes.len": fresh(prefix + ".len", INT)}
            for nf, nty in SCHEMAS["Node"].items():
                out.update(self.fresh_node_field(prefix, nf, nty))
            return out
        if ty == "matrix":
            return {f: Matrix()}
        if ty == "fn":
            return {f: FnVal()}
        if ty == "opaque":
            return {f: fresh(prefix, INT)}
        raise Unsupported("schema type %s" % ty)

    def fresh_node_field(self, prefix, nf, nty):
        if nty.startswith("list["):
            el = nty[5:-1]
            return {
                "nodes." + nf: fresh(prefix + "." + nf, z3.ArraySort(INT, z3.ArraySort(INT, sort_of(el)))),
                "nodes." + nf + ".len": fresh(prefix + "." + nf + ".len", z3.ArraySort(INT, INT)),
            }
        return {"nodes." + nf: fresh(prefix + "." + nf, z3.ArraySort(INT, sort_of(nty)))}

    def named(self, arr):
        """give non-constant array terms (stores, ites) a name so that they can occur in patterns"""
        if z3.is_const(arr) and arr.decl().kind() == z3.Z3_OP_UNINTERPRETED:
            return arr
        k = arr.get_id()
        if k not in self.names:
            c = fresh("arr", arr.sort())
            self.names[k] = (c, arr)
            self.defs.append(c == arr)
        return self.names[k][0]

    def node_get(self, st, oid, idx, f, named=False):
        fields = st.heap[oid]
        key = "nodes." + f
        if key not in fields:
            raise SpecDrift("unknown node field %s" % f)
        nty = SCHEMAS["Node"][f]
        nm = self.named if named else (lambda a: a)
        if nty.startswith("list["):
            return SList(z3.Select(nm(fields[key]), idx), z3.Select(nm(fields[key + ".len"]), idx), nty[5:-1])
        return z3.Select(nm(fields[key]), idx)

    def node_set(self, st, oid, idx, f, val):
        fields = st.heap[oid]
        key = "nodes." + f
        nty = SCHEMAS["Node"][f]
        if nty.startswith("list["):
            if not isinstance(val, SList):
                raise Unsupported("node list field set to non-list")
            fields[key] = z3.Store(fields[key], idx, val.arr)
            fields[key + ".len"] = z3.Store(fields[key + ".len"], idx, L.lift(val.length, INT))
        else:
            fields[key] = z3.Store(fields[key], idx, L.lift(val, sort_of(nty)))

    # ---------------- obligations

    def oblige(self, st, kind, anchor, clause, goal, node=None, using=None):
        base = "%s/%s/%s/%s" % (self.qualname, kind, anchor, clause)
        n = self.obl_names.get(base, 0)
        self.obl_names[base] = n + 1
        name = base if n == 0 else "%s#%d" % (base, n)
        if self.config:
            name += "[" + ",".join("%s=%s" % kv for kv in sorted(self.config.items())) + "]"
        if isinstance(goal, bool):
            g = goal
        else:
            g = goal
        lineno = getattr(node, "lineno", 0) if node is not None else 0
        text = ""
        if node is not None:
            try:
                text = ast.unparse(node).split("\n")[0][:100]
            except Exception:
                text = ""
        # `using` names the clauses a proof is expected to need (requires "req.<name>", invariants and hints by name,
        # callee posts "call.<Class.method>.<post>"): a first, small attempt is made from the ground facts of the
        # state plus those clauses only (dropping assumptions is sound; it keeps unrelated quantified clauses out of
        # the instantiation engine).  The full context remains the fall-back, so a wrong list costs time only.
        ob = Obligation(name, kind, g, list(st.pc), lineno, text)
        ground = None
        if using is not None:
            chosen = [st.facts[u] for u in using if u in st.facts]
            ground = [t for t in st.pc if not _has_quantifier(t)]
            ob.focus = ground + chosen
        elif kind == "pres" and clause in st.facts:
            # most invariants are preserved by themselves plus the frame of the body
            ground = [t for t in st.pc if not _has_quantifier(t)]
            ob.focus = ground + [st.facts[clause]] + \
                       [t for k, t in sorted(st.facts.items()) if k.startswith(("call.", "req."))]
        ob.defs = self.defs
        self.obligations.append(ob)
        st.assume(g, name=clause)
        return ob

    def ns(self, st, extra=None):
        n = NS(self, st, extra)
        self._verify_ns.add(id(n))
        self._verify_keep.append(n)
        return n

    def in_verify_ns(self, ns):
        return id(ns) in self._verify_ns

    # ---------------- top level

    def verify(self):
        c = self.contract
        st = State()
        # parameters
        for pname, ty in c.params.items():
            if pname == "return":
                continue
            st.locals[pname] = self.fresh_param(st, pname, ty)
            pv = st.locals[pname]
            if isinstance(pv, SList):
                st.assume(pv.length >= 0)
            elif isinstance(pv, Opt):
                st.assume(pv.value.length >= 0)
        for k, v in self.config.items():
            # configuration constraints, e.g. policy fixed to 'min'
            path = k.split(".")
            if len(path) == 1 and (v is None or isinstance(v, (str, bool))):
                st.locals[k] = v          # a concrete configuration value (None / a concrete string)
                continue
            val = self.read_path(st, path)
            st.assume(L.eq(val, v))
        st.locals["$rng"] = fresh("rng.entry", INT)     # state of numpy's global generator on entry (unknown)
        self.old = st.copy()
        v = self.ns(st)
        for name, term in c.requires(v):
            st.assume(term, name="req." + name)
        if c.defs is not None:
            # definitions of ghost functions (primitive recursion): conservative extensions, assumed at entry
            for name, term in c.defs(v):
                st.assume(term)
        cov = Obligation(self.qualname + "/cover/entry/requires-satisfiable", "cover", False, list(st.pc), 0, "")
        cov.defs = self.defs
        self.obligations.append(cov)
        self.entry_pc_len = len(st.pc)
        self.apply_anchor(st, "entry")
        body = strip_docstring(self.fn)
        outs = self.exec_block(st, body)
        for (s, kind, val) in outs:
            if kind == "next":
                kind, val = "return", None
            if kind == "return":
                self.check_ensures(s, val)
            elif kind == "raise":
                allowed = False
                if c.raises is not None:
                    cond = c.raises(self.ns(self.old))
                    self.oblige(s, "raise", "exit", "allowed", cond, val[1] if isinstance(val, tuple) else None)
                    allowed = True
                if not allowed:
                    self.oblige(s, "safe", "raise", "unreachable", False, val[1] if isinstance(val, tuple) else None)
            else:
                raise Unsupported("break/continue outside loop")
        # every anchor the contract hangs ghost code, hints or lemmas on must exist in the code: a statement that was
        # renamed or restructured away silently takes its ghost updates with it, and the obligations that then fail would
        # speak about the missing ghost state, not about the code
        wanted = {a for (a, *_r) in list(c.hints) + list(c.late_hints) + list(c.lemmas) + list(c.ghost) + list(c.assumes)
                  + list(getattr(c, "asserts", []))}
        # how many statements of the function carry each anchor (compared with the baseline by the check: when one of two
        # occurrences is rewritten, the anchor still fires at the other one, but the ghost updates at the first are gone)
        self.anchor_counts = {}
        for node in ast.walk(self.fn):
            if isinstance(node, ast.stmt):
                a_ = self.stmt_anchor(node)
                if a_:
                    for cand in (a_, "before:" + a_[6:]):
                        if cand in wanted:
                            self.anchor_counts[cand] = self.anchor_counts.get(cand, 0) + 1
        missing = sorted(a for a in wanted if a not in getattr(self, "fired_anchors", set()))
        if missing:
            raise SpecDrift("contract anchor(s) not found in the code: %s" % "; ".join(missing)[:400])
        return self.obligations

    def check_ensures(self, st, result):
        c = self.contract
        v = self.ns(st)
        oldv = self.ns(self.old)
        k = 0
        for item in c.ensures(v, oldv, wrap(self, st, result)):
            self.oblige(st, "post", "ret", item[0], item[1], using=item[2] if len(item) > 2 else None)
        # frame: every field of parameter objects not in modifies must be unchanged
        self.check_frame(st)

    def check_frame(self, st):
        allowed = self.modset_of_contract(self.contract, {p: self.old.locals[p] for p in self.contract.params if p in self.old.locals}, self.old)
        for oid, fields in self.old.heap.items():
            if oid not in st.heap:
                continue
            for f, v0 in fields.items():
                v1 = st.heap[oid].get(f)
                if (oid, f) in allowed or (oid, f.replace(".len", "")) in allowed:
                    continue
                same = self.same_value(v0, v1)
                if same is True:
                    continue
                self.oblige(st, "frame", "ret", "%s.%s" % (oid.split("#")[0], f), same)

    def same_value(self, a, b):
        if a is b:
            return True
        if isinstance(a, SList) and isinstance(b, SList):
            if a.same(b):
                return True
            return z3.And(a.arr == b.arr, L.eq(a.length, b.length))
        if L.is_z3(a) and L.is_z3(b):
            if a.eq(b):
                return True
            return a == b
        if isinstance(a, ObjRef) and isinstance(b, ObjRef):
            return a.oid == b.oid
        if isinstance(a, (Matrix, FnVal)) and type(a) == type(b):
            return True
        if a is None and b is None:
            return True
        if not L.is_z3(a) and not L.is_z3(b):
            try:
                return a == b
            except Exception:
                return False
        return L.eq(a, b)

    def fresh_param(self, st, pname, ty):
        if ty in ("int", "real", "bool", "feat"):
            return fresh(pname, sort_of(ty))
        if ty == "str":
            return fresh(pname, INT)
        if ty.startswith("list["):
            return fresh_list(pname, ty[5:-1])
        if ty.startswith("obj:"):
            return self.new_object(st, ty[4:], pname)
        if ty == "matrix":
            return Matrix()
        if ty == "mat2d":
            return SMat(fresh(pname, z3.ArraySort(INT, z3.ArraySort(INT, REAL))), fresh(pname + ".rows", INT),
                        fresh(pname + ".cols", INT))
        if ty == "fn":
            return FnVal()
        if ty == "none":
            return None
        if ty == "tuple":
            raise Unsupported("tuple-valued results are only supported while the function itself is verified")
        if ty.startswith("optlist["):
            return Opt(fresh(pname + ".given", BOOL), fresh_list(pname, ty[8:-1]))
        raise Unsupported("param type %s" % ty)

    def read_path(self, st, path):
        v = st.locals[path[0]]
        for f in path[1:]:
            v = st.heap[v.oid][f]
        return v

    # ---------------- anchors: lemmas / ghost / hints

    def apply_anchor(self, st, anchor):
        c = self.contract
        if not hasattr(self, "fired_anchors"):
            self.fired_anchors = set()
        self.fired_anchors.add(anchor)
        for (a, fnh) in c.hints:
            if a != anchor or not getattr(fnh, "early", True):
                continue
            for item in fnh(self.ns(st), self.ns(self.old)):
                self.oblige(st, "hint", anchor, item[0], item[1], using=item[2] if len(item) > 2 else None)
        for (a, fna) in getattr(c, "assumes", []):
            if a != anchor:
                continue
            for name, term in fna(self.ns(st), self.ns(self.old)):
                st.assume(term)       # an instance of an ASSUMED external contract (listed in the trusted base)
                self.notes.append("assumed at %s: %s" % (anchor, name))
        for (a, lname, binder) in c.lemmas:
            if a != anchor:
                continue
            lem = LEMMAS[lname]
            args = binder(self.ns(st))
            at = args.pop("_at", None)      # use the (inductive) lemma at these indices only, not for all k
            for name, term in lem.hyp(**args):
                self.oblige(st, "lemma", anchor, lname + "." + name, term)
            if lem.conclusion is not None:
                st.assume(lem.conclusion(**args))
            elif at is not None:
                for kv in at:
                    kv = getattr(kv, "z3", kv)
                    self.oblige(st, "lemma", anchor, lname + ".index-in-range",
                                L.conj(L.le(lem.lo(**args), kv), L.lt(kv, lem.hi(**args))))
                    st.assume(lem.concl(k=kv, **args))
            else:
                st.assume(L.forall(lem.lo(**args), lem.hi(**args), lambda k: lem.concl(k=k, **args)))
        for (a, fnh) in getattr(c, "late_hints", []):
            if a != anchor:
                continue
            for item in fnh(self.ns(st), self.ns(self.old)):
                self.oblige(st, "hint", anchor, item[0], item[1], using=item[2] if len(item) > 2 else None)
        for (a, fnh) in getattr(c, "asserts", []):
            if a != anchor:
                continue
            for item in fnh(self.ns(st), self.ns(self.old)):
                # an in-line assertion of the contract (the property stated at this program point)
                self.oblige(st, "assert", anchor, item[0], item[1], using=item[2] if len(item) > 2 else None)
        for (a, src) in c.ghost:
            if a != anchor:
                continue
            for stmt in ast.parse(src).body:
                self.check_ghost_stmt(stmt)
                self._in_ghost = True        # ghost conditionals are always merged (one state out)
                try:
                    outs = self.exec_stmt(st, stmt)
                finally:
                    self._in_ghost = False
                if len(outs) != 1 or outs[0][1] != "next":
                    raise Unsupported("ghost code must be straight-line")
                if outs[0][0] is not st:
                    st.__dict__.update(outs[0][0].__dict__)

    def check_ghost_stmt(self, stmt):
        for n in ast.walk(stmt):
            if isinstance(n, (ast.Assign, ast.AugAssign)):
                tgts = n.targets if isinstance(n, ast.Assign) else [n.target]
                for t in tgts:
                    base = t
                    while isinstance(base, ast.Subscript):
                        base = base.value
                    if not (isinstance(base, ast.Name) and base.id.startswith("g_")):
                        raise SpecDrift("ghost code may only write ghost variables (g_*)")

    def stmt_anchor(self, stmt):
        try:
            return "after:" + " ".join(ast.unparse(stmt).split())
        except Exception:
            return None

    # ---------------- blocks and statements

    def exec_block(self, st, stmts):
        """returns list of (state, kind, value)"""
        outs = []
        cur = [st]
        for stmt in stmts:
            nxt = []
            for s in cur:
                for (s2, kind, val) in self.exec_stmt(s, stmt):
                    if kind == "next":
                        nxt.append(s2)
                    else:
                        outs.append((s2, kind, val))
            cur = nxt
            if not cur:
                break
        for s in cur:
            outs.append((s, "next", None))
        return outs

    def exec_stmt(self, st, stmt):
        m = getattr(self, "stmt_" + type(stmt).__name__, None)
        if m is None:
            raise Unsupported("statement %s at line %d" % (type(stmt).__name__, stmt.lineno))
        a = self.stmt_anchor(stmt)
        if a and self.has_anchor("before:" + a[6:]):
            self.apply_anchor(st, "before:" + a[6:])
        outs = m(st, stmt)
        if a and self.has_anchor(a):
            for (s2, kind, val) in outs:
                if kind == "next":
                    self.apply_anchor(s2, a)
        return outs

    def has_anchor(self, a):
        c = self.contract
        return any(x[0] == a for x in c.lemmas) or any(x[0] == a for x in c.hints) or any(x[0] == a for x in c.ghost) \
            or any(x[0] == a for x in getattr(c, "asserts", [])) \
            or any(x[0] == a for x in getattr(c, "assumes", [])) or any(x[0] == a for x in getattr(c, "late_hints", []))

    def stmt_Pass(self, st, stmt):
        return [(st, "next", None)]

    def stmt_Expr(self, st, stmt):
        if isinstance(stmt.value, ast.Constant):
            return [(st, "next", None)]
        if self.is_dropped_call(stmt.value):
            return [(st, "next", None)]
        self.eval(st, stmt.value)
        return [(st, "next", None)]

    def is_dropped_call(self, e):
        return (isinstance(e, ast.Call) and isinstance(e.func, ast.Attribute)
                and isinstance(e.func.value, ast.Name) and e.func.value.id == "logger")

    def stmt_Return(self, st, stmt):
        val = self.eval(st, stmt.value) if stmt.value is not None else None
        return [(st, "return", val)]

    def stmt_Raise(self, st, stmt):
        return [(st, "raise", ("exc", stmt))]

    def stmt_Break(self, st, stmt):
        return [(st, "break", None)]

    def stmt_Continue(self, st, stmt):
        return [(st, "continue", None)]

    def stmt_Assign(self, st, stmt):
        val = self.eval(st, stmt.value)
        if len(stmt.targets) == 1 and isinstance(stmt.targets[0], ast.Name) and isinstance(val, SList) \
                and not self.cur_fn_stack and self.contract.locals_types.get(stmt.targets[0].id) == "list[int]" \
                and val.elem == "real" and z3.is_K(val.arr):
            # a float64 array that only ever holds sample indices (exact below 2^53) is modelled as an int array
            val = SList(z3.K(INT, z3.IntVal(0)), val.length, "int")
        for tgt in stmt.targets:
            self.assign(st, tgt, val, stmt)
        return [(st, "next", None)]

    def stmt_AnnAssign(self, st, stmt):
        if stmt.value is None:
            return [(st, "next", None)]
        val = self.eval(st, stmt.value)
        self.assign(st, stmt.target, val, stmt)
        return [(st, "next", None)]

    def column_aug(self, st, stmt):
        """M[:, j] op= rhs   (rhs a vector over the rows, or a scalar): elementwise on column j"""
        t = stmt.target
        M = self.eval(st, t.value)
        j = self.eval(st, t.slice.elts[1])
        rhs = self.eval(st, stmt.value)
        if not isinstance(M, SMat) or not isinstance(stmt.op, ast.Div):
            raise Unsupported("column update")
        r = L.fresh_int("row")
        if isinstance(rhs, SList):
            self.oblige(st, "safe", "shape", "column-length", L.eq(rhs.length, M.nrows), stmt)
            d = L.realval(rhs[r])
            self.oblige(st, "safe", "div", "column-nonzero",
                        L.forall(0, M.nrows, lambda k: L.ne(rhs[k], 0)), stmt)
        else:
            d = L.realval(rhs)
            self.oblige(st, "safe", "div", "nonzero", d != 0, stmt)
        new = fresh("col", M.arr.sort())
        c = L.fresh_int("colidx")
        st.assume(z3.ForAll([r, c], z3.Implies(z3.And(r >= 0, r < L.lift(M.nrows, INT)),
                                               z3.Select(z3.Select(new, r), c) ==
                                               z3.If(c == L.lift(j, INT), z3.Select(z3.Select(M.arr, r), c) / d,
                                                     z3.Select(z3.Select(M.arr, r), c))),
                            patterns=[z3.Select(z3.Select(new, r), c)]))
        self.assign(st, t.value, SMat(new, M.nrows, M.ncols), stmt)
        return [(st, "next", None)]

    def vector_aug(self, st, stmt):
        """v op= w  on whole 1-D arrays (elementwise, in place)"""
        cur = self.eval(st, _as_load(stmt.target))
        rhs = self.eval(st, stmt.value)
        if not isinstance(stmt.op, ast.Div):
            raise Unsupported("vector in-place operator")
        r = L.fresh_int("el")
        if isinstance(rhs, SList):
            self.oblige(st, "safe", "shape", "same-length", L.eq(rhs.length, cur.length), stmt)
            self.oblige(st, "safe", "div", "elements-nonzero", L.forall(0, cur.length, lambda k: L.ne(rhs[k], 0)), stmt)
            d = L.realval(rhs[r])
        else:
            d = L.realval(rhs)
            self.oblige(st, "safe", "div", "nonzero", d != 0, stmt)
        new = fresh("vec", z3.ArraySort(INT, REAL))
        st.assume(z3.ForAll([r], z3.Implies(z3.And(r >= 0, r < L.lift(cur.length, INT)),
                                            z3.Select(new, r) == L.realval(cur[r]) / d),
                            patterns=[z3.Select(new, r)]))
        self.assign(st, stmt.target, SList(new, cur.length, "real"), stmt)
        return [(st, "next", None)]

    def stmt_AugAssign(self, st, stmt):
        if isinstance(stmt.target, ast.Subscript) and isinstance(stmt.target.slice, ast.Tuple) \
                and len(stmt.target.slice.elts) == 2 and isinstance(stmt.target.slice.elts[0], ast.Slice):
            return self.column_aug(st, stmt)
        if isinstance(stmt.target, ast.Name) and isinstance(st.locals.get(stmt.target.id), SList) \
                and st.locals[stmt.target.id].elem == "real" and not stmt.target.id.startswith("g_"):
            rhs_is_vec = True
            return self.vector_aug(st, stmt)
        cur = self.eval(st, stmt.target_load()) if hasattr(stmt, "target_load") else self.eval(st, _as_load(stmt.target))
        rhs = self.eval(st, stmt.value)
        val = self.binop(st, stmt.op, cur, rhs, stmt)
        self.assign(st, stmt.target, val, stmt)
        return [(st, "next", None)]

    def stmt_If(self, st, stmt):
        cond = self.truth(st, self.eval(st, stmt.test), stmt.test)
        if cond is True:
            return self.exec_block(st, stmt.body)
        if cond is False:
            return self.exec_block(st, stmt.orelse)
        base_len = len(st.pc)
        a = st.copy()
        a.assume(cond)
        a.path.append(cond)
        b = st.copy()
        nc = z3.Not(cond)
        b.assume(nc)
        b.path.append(nc)
        oa = self.exec_block(a, stmt.body)
        ob = self.exec_block(b, stmt.orelse)
        na = [o for o in oa if o[1] == "next"]
        nb = [o for o in ob if o[1] == "next"]
        rest = [o for o in oa + ob if o[1] != "next"]
        has_loop = any(isinstance(x, (ast.While, ast.For)) for b in (stmt.body, stmt.orelse) for y in b
                       for x in ast.walk(y))
        if len(na) == 1 and len(nb) == 1 and not has_loop and not (self.contract.split and not self.cur_fn_stack and not getattr(self, '_in_ghost', False)):
            # drop the branch condition itself from the extras (it is re-expressed by the implication)
            try:
                m = merge_states(cond, na[0][0], nb[0][0], base_len)
                return rest + [(m, "next", None)]
            except Unsupported:
                pass   # values that cannot be merged (distinct fresh objects): keep the two paths apart
        return rest + na + nb

    # ---------------- loops

    def next_loop_spec(self, kind, var, stmt):
        if not hasattr(self, "loop_index"):
            self.loop_index = {}
            k = 0
            for n in ast.walk(self.fn):      # breadth-first; sort by source position for a stable pre-order
                pass
            loops = sorted([n for n in ast.walk(self.fn) if isinstance(n, (ast.While, ast.For))],
                           key=lambda n: (n.lineno, n.col_offset))
            for k, n in enumerate(loops):
                self.loop_index[id(n)] = k
            self.loop_nested = set()
            for outer in loops:
                for inner in ast.walk(outer):
                    if inner is not outer and isinstance(inner, (ast.While, ast.For)):
                        self.loop_nested.add(id(inner))
        if stmt is None:
            return None, None
        if id(stmt) not in self.loop_index:
            # a loop of an inlined callee: no sidecar invariant
            self.extra_loops = getattr(self, "extra_loops", 1000) + 1
            return self.extra_loops, None
        i = self.loop_index[id(stmt)]
        specs = self.contract.loops
        if i >= len(specs) or specs[i] is None:
            # the code has a loop the contract gives no invariant for (new or restructured): the proof does not apply
            # as written
            raise SpecDrift("loop #%d of %s (`%s %s`) has no invariant in the contract (%d loop(s) specified)" % (
                i, self.qualname, kind, var, len(specs)))
        sp = specs[i]
        if sp.kind != kind or (sp.var is not None and sp.var != var):
            raise SpecDrift("loop #%d of %s is `%s %s` but the spec expects `%s %s`" % (
                i, self.qualname, kind, var, sp.kind, sp.var))
        return i, sp

    def stmt_While(self, st, stmt):
        if stmt.orelse:
            raise Unsupported("while/else")
        li, spec = self.next_loop_spec("while", None, stmt)
        return self.run_loop(st, stmt, li, spec, head=None, cond_expr=stmt.test, body=stmt.body)

    def stmt_For(self, st, stmt):
        if stmt.orelse:
            raise Unsupported("for/else")
        it = stmt.iter
        tgt = stmt.target
        var = ast.unparse(tgt)
        li, spec = self.next_loop_spec("for", var, stmt)
        if isinstance(it, ast.Call) and isinstance(it.func, ast.Name) and it.func.id == "range":
            args = [self.eval(st, a) for a in it.args]
            if len(args) == 1:
                lo, hi, step = 0, args[0], 1
            elif len(args) == 2:
                lo, hi, step = args[0], args[1], 1
            else:
                lo, hi, step = args
            if not isinstance(step, int) or step not in (1, -1):
                raise Unsupported("range step")
            cname = "it!%d" % li
            st.locals[cname] = lo
            if not isinstance(tgt, ast.Name):
                raise Unsupported("for target")
            st.locals[tgt.id] = lo

            def head(s, cname=cname, tgt=tgt):
                s.locals[tgt.id] = s.locals[cname]

            def cond(s, cname=cname, hi=hi, step=step):
                return L.lt(s.locals[cname], hi) if step == 1 else L.gt(s.locals[cname], hi)

            def adv(s, cname=cname, tgt=tgt, step=step):
                s.locals[cname] = self.binop(s, ast.Add(), s.locals[cname], step, None)
                s.locals[tgt.id] = s.locals[cname]

            def auto(s, cname=cname, lo=lo, hi=hi, step=step, tgt=tgt):
                s.locals[tgt.id] = s.locals[cname]   # at the loop head the loop variable IS the counter
                k = s.locals[cname]
                if step == 1:
                    return [("range", L.conj(L.le(lo, k), L.disj(L.le(k, hi), L.conj(L.lt(hi, lo), L.eq(k, lo)))))]
                return [("range", L.conj(L.ge(lo, k), L.disj(L.ge(k, hi), L.conj(L.gt(hi, lo), L.eq(k, lo)))))]
            return self.run_loop(st, stmt, li, spec, head=head, cond_fn=cond, body=stmt.body, advance=adv,
                                 auto_inv=auto, extra_mod=[cname, tgt.id])
        # iteration over a (live) list / node list, optionally through zip and/or enumerate
        cname = "loop%d_k" % li
        st.locals[cname] = 0
        enum_name = None
        it2, tgt2 = it, tgt
        if isinstance(it, ast.Call) and isinstance(it.func, ast.Name) and it.func.id == "enumerate" and len(it.args) == 1:
            if not isinstance(tgt, ast.Tuple) or len(tgt.elts) != 2 or not isinstance(tgt.elts[0], ast.Name):
                raise Unsupported("enumerate target")
            enum_name = tgt.elts[0].id
            it2, tgt2 = it.args[0], tgt.elts[1]
        if isinstance(it2, ast.Call) and isinstance(it2.func, ast.Name) and it2.func.id == "zip":
            seq_exprs = it2.args
            if not isinstance(tgt2, ast.Tuple) or len(tgt2.elts) != len(seq_exprs) \
                    or not all(isinstance(t, ast.Name) for t in tgt2.elts):
                raise Unsupported("zip target")
            tnames = [t.id for t in tgt2.elts]
        else:
            seq_exprs = [it2]
            if not isinstance(tgt2, ast.Name):
                raise Unsupported("for target")
            tnames = [tgt2.id]

        def seqs(s):
            vs = [self.eval(s, e) for e in seq_exprs]
            out = []
            for x in vs:
                if isinstance(x, SList):
                    out.append((x.length, (lambda k, x=x: x[k])))
                elif isinstance(x, NodeList):
                    out.append((s.heap[x.oid]["nodes.len"], (lambda k, x=x: NodeRef(x.oid, L.lift(k, INT)))))
                else:
                    raise Unsupported("iteration over non-list at line %d" % stmt.lineno)
            return out

        def cond2(s, cname=cname):
            k = s.locals[cname]
            return L.conj(*[L.lt(k, n) for (n, _) in seqs(s)])

        def head2(s, cname=cname):
            k = s.locals[cname]
            for nm, (n, get) in zip(tnames, seqs(s)):
                s.locals[nm] = get(k)
            if enum_name:
                s.locals[enum_name] = k
            s.locals[cname] = k + 1

        def auto2(s, cname=cname):
            return [("range", L.le(0, s.locals[cname]))]
        return self.run_loop(st, stmt, li, spec, head=head2, cond_fn=cond2, body=stmt.body, advance=None,
                             auto_inv=auto2, extra_mod=[cname] + tnames + ([enum_name] if enum_name else []))

    def run_loop(self, st, stmt, li, spec, head=None, cond_expr=None, cond_fn=None, body=None, advance=None,
                 auto_inv=None, extra_mod=()):
        anchor = "loop%d" % li
        entry = st.copy()
        oldv = self.ns(self.old)

        def invs(s):
            out = []
            if auto_inv:
                out += auto_inv(s)
            if spec is not None and spec.inv is not None:
                out += spec.inv(self.ns(s), oldv, self.ns(entry))
            return out
        # 1. invariants hold on entry
        for item in invs(st):
            # the entry of a loop nested in another loop of this function is reached in the middle of an iteration
            ob_ = self.oblige(st, "entry", anchor, item[0], item[1], stmt)
            if id(stmt) in getattr(self, "loop_nested", ()):
                ob_.kind = "entry-nested"      # (the obligation keeps its name .../entry/loopN/...)
        # 2. havoc everything the body may modify
        saved_counter = self.loop_counter
        mods_locals, mods_heap = self.modset(st, body, stmt)
        for nm in extra_mod:
            mods_locals.add(nm)
        hs = st.copy()
        self.havoc(hs, mods_locals, mods_heap)
        # 3. assume invariants
        for item in invs(hs):
            hs.assume(item[1], name=item[0])
        dec0 = None
        if spec is not None and spec.decreases is not None:
            dec0 = spec.decreases(self.ns(hs))
        # 4a. exit path
        ex = hs.copy()
        # 4b. iteration path
        itst = hs.copy()
        if cond_expr is not None:
            c_it = self.truth(itst, self.eval(itst, cond_expr), cond_expr)
            c_ex = self.truth(ex, self.eval(ex, cond_expr), cond_expr)
        else:
            c_it = cond_fn(itst)
            c_ex = cond_fn(ex)
        outs = []
        if c_it is not False:
            itst.assume(c_it)
            itst.path.append(L.to_z3_bool(c_it))
            if head:
                head(itst)
            cov = Obligation("%s/cover/%s/body-reachable" % (self.qualname, anchor), "cover", False, list(itst.pc),
                             getattr(stmt, "lineno", 0), "")
            cov.defs = self.defs
            self.obligations.append(cov)
            self._loop_depth = getattr(self, "_loop_depth", 0) + 1
            try:
                body_outs = self.exec_block(itst, body)
            finally:
                self._loop_depth -= 1
            for (s2, kind, val) in body_outs:
                if kind in ("next", "continue"):
                    if advance:
                        advance(s2)
                    for item in invs(s2):
                        # an invariant may name the clauses its preservation is proved from (focused obligation)
                        self.oblige(s2, "pres", anchor, item[0], item[1], stmt,
                                    using=item[2] if len(item) > 2 else None)
                    if dec0 is not None:
                        d1 = spec.decreases(self.ns(s2))
                        self.oblige(s2, "pres", anchor, "decreases", L.conj(L.ge(dec0, 0), L.lt(d1, dec0)), stmt)
                elif kind == "break":
                    outs.append((s2, "next", None))
                else:
                    outs.append((s2, kind, val))
        else:
            pass
        if c_ex is not True:
            ex.assume(L.neg(c_ex))
            ex.path.append(L.to_z3_bool(L.neg(c_ex)))
            outs.append((ex, "next", None))
        # drop loop-private counters are harmless
        a = "after:" + anchor
        if self.has_anchor(a):
            self.apply_anchor(ex, a)
        return outs

    def count_loops(self, stmts):
        n = 0
        for s in stmts:
            for x in ast.walk(s):
                if isinstance(x, (ast.While, ast.For)):
                    n += 1
        return n

    def havoc(self, st, mods_locals, mods_heap):
        self._havoc(st, mods_locals, mods_heap)
        # list lengths are never negative (Python / numpy)
        for v in list(st.locals.values()):
            if isinstance(v, SList) and L.is_z3(v.length):
                st.assume(v.length >= 0)

    def _havoc(self, st, mods_locals, mods_heap):
        for nm in sorted(mods_locals):
            cur = st.locals.get(nm, UNBOUND)
            if cur is UNBOUND:
                ty = self.contract.locals_types.get(nm)
                if ty is None:
                    # unbound before the loop and of unknown type: leave unbound on exit paths
                    continue
                st.locals[nm] = self.fresh_param(st, nm, ty)
                st.defined[nm] = fresh("def." + nm, BOOL)
                continue
            st.locals[nm] = self.havoc_value(nm, cur)
        for (oid, f, how) in sorted(mods_heap):
            fields = st.heap[oid]
            if f not in fields:
                continue
            cur = fields[f]
            if isinstance(cur, ObjRef):
                # the attribute is rebound to a NEW object of the same class (e.g. `self.subgraph = Subgraph(..)`)
                fields[f] = self.new_object(st, cur.cls, oid.split("#")[0] + "." + f)
                continue
            if isinstance(cur, SList) and how == "content":
                fields[f] = SList(fresh(oid.split("#")[0] + "." + f, cur.arr.sort()), cur.length, cur.elem)
            else:
                fields[f] = self.havoc_value(oid.split("#")[0] + "." + f, cur)
            if f.startswith("nodes.") and how == "struct" and (f + ".len") in fields:
                fields[f + ".len"] = self.havoc_value(f + ".len", fields[f + ".len"])

    def havoc_value(self, nm, cur):
        if isinstance(cur, SMat):
            return SMat(fresh(nm, cur.arr.sort()), cur.nrows, cur.ncols)
        if isinstance(cur, SList):
            return fresh_list(nm, cur.elem)
        if L.is_z3(cur):
            return fresh(nm, cur.sort())
        if isinstance(cur, bool):
            return fresh(nm, BOOL)
        if isinstance(cur, int):
            return fresh(nm, INT)
        if isinstance(cur, float):
            return fresh(nm, REAL)
        if isinstance(cur, NodeRef):
            return NodeRef(cur.oid, fresh(nm, INT))
        if isinstance(cur, str):
            return fresh(nm, INT)
        if cur is None or isinstance(cur, (ObjRef, NodeList, Matrix, FnVal, Opt)):
            return cur
        raise Unsupported("havoc of %r" % (cur,))

    # ---- modified sets (syntactic, through callee contracts)

    def modset(self, st, stmts, where):
        loc, heap = set(), set()
        for s in stmts:
            self._modset_stmt(st, s, loc, heap)
        return loc, heap

    def _modset_stmt(self, st, s, loc, heap, ghost=True):
        if ghost:
            # ghost statements anchored at (sub)statements of this one are part of the loop body too
            if not hasattr(self, "loop_index"):
                self.next_loop_spec("probe", None, None)
            for n in ast.walk(s):
                if isinstance(n, ast.stmt):
                    anchors = [self.stmt_anchor(n)]
                    if isinstance(n, (ast.While, ast.For)) and id(n) in self.loop_index:
                        anchors.append("after:loop%d" % self.loop_index[id(n)])
                    for (ga, src) in self.contract.ghost:
                        if ga in anchors:
                            for gs in ast.parse(src).body:
                                self._modset_stmt(st, gs, loc, heap, ghost=False)
        for n in ast.walk(s):
            if isinstance(n, (ast.Assign, ast.AugAssign, ast.AnnAssign, ast.For)):
                tgts = n.targets if isinstance(n, ast.Assign) else [n.target]
                for t in tgts:
                    self._modset_target(st, t, loc, heap)
            elif isinstance(n, ast.Call):
                self._modset_call(st, n, loc, heap)

    def _modset_target(self, st, t, loc, heap):
        if isinstance(t, ast.Name):
            loc.add(t.id)
        elif isinstance(t, (ast.Tuple, ast.List)):
            for e in t.elts:
                self._modset_target(st, e, loc, heap)
        elif isinstance(t, ast.Attribute):
            base = self.static_base(st, t.value)
            self._mod_field(base, t.attr, "struct", heap, st)
        elif isinstance(t, ast.Subscript):
            inner = t.value
            if isinstance(inner, ast.Name):
                loc.add(inner.id)
            elif isinstance(inner, ast.Attribute):
                base = self.static_base(st, inner.value)
                self._mod_field(base, inner.attr, "content", heap, st)
            elif isinstance(inner, ast.Subscript):
                # 2-D store a[i][j] = v on a local
                b = inner.value
                if isinstance(b, ast.Name):
                    loc.add(b.id)
                else:
                    raise Unsupported("nested subscript store")
            else:
                raise Unsupported("subscript store target")
        else:
            raise Unsupported("assignment target %s" % type(t).__name__)

    def _mod_field(self, base, attr, how, heap, st=None):
        attr = attr.lstrip("_")
        if isinstance(base, ObjRef):
            heap.add((base.oid, attr, how))
        elif isinstance(base, tuple) and base[0] == "node":
            heap.add((base[1], "nodes." + attr, "struct"))
        else:
            raise Unsupported("cannot resolve store base statically")

    def static_base(self, st, e):
        """resolve an expression to the object it denotes, without evaluating indices"""
        if isinstance(e, ast.Name):
            v = st.locals.get(e.id, UNBOUND)
            if isinstance(v, ObjRef):
                return v
            if isinstance(v, NodeRef):
                return ("node", v.oid)
            if isinstance(v, NodeList):
                return ("nodelist", v.oid)
            # a local bound (once) inside the function to an alias of an object / node / node list, e.g.
            # `node_p = self.subgraph.nodes[p]` hoisted to the top of a loop body: resolve through its defining expression
            seen = getattr(self, "_sb_seen", None)
            top = seen is None
            if top:
                seen = self._sb_seen = set()
            try:
                if e.id not in seen:
                    seen.add(e.id)
                    fn_ast = getattr(self, "fn_inline", None) if self.cur_fn_stack else self.fn
                    defs = [n for n in ast.walk(fn_ast or self.fn) if isinstance(n, ast.Assign) and len(n.targets) == 1
                            and isinstance(n.targets[0], ast.Name) and n.targets[0].id == e.id]
                    others = [n for n in ast.walk(fn_ast or self.fn)
                              if (isinstance(n, (ast.AugAssign, ast.For)) and isinstance(getattr(n, "target", None), ast.Name)
                                  and n.target.id == e.id)]
                    if len(defs) == 1 and not others and isinstance(defs[0].value, (ast.Name, ast.Attribute, ast.Subscript)):
                        r = self.static_base(st, defs[0].value)
                        if isinstance(r, ObjRef) or (isinstance(r, tuple) and r[0] in ("node", "nodelist")):
                            return r
            finally:
                if top:
                    self._sb_seen = None
            return ("local", e.id)
        if isinstance(e, ast.Attribute):
            b = self.static_base(st, e.value)
            if isinstance(b, ObjRef):
                v = st.heap[b.oid].get(e.attr.lstrip("_"), UNBOUND)
                if v is None and e.attr == "nodes":
                    return ("nodelist", b.oid)
                if isinstance(v, ObjRef):
                    return v
                if e.attr == "nodes":
                    return ("nodelist", b.oid)
                return ("field", b, e.attr)
            if isinstance(b, tuple) and b[0] == "node":
                return ("nodefield", b[1], e.attr)
            return ("unknown",)
        if isinstance(e, ast.Subscript):
            b = self.static_base(st, e.value)
            if isinstance(b, tuple) and b[0] == "nodelist":
                return ("node", b[1])
            return ("elem", b)
        return ("unknown",)

    def _modset_call(self, st, n, loc, heap):
        f = n.func
        if isinstance(f, ast.Attribute):
            if f.attr in ("append", "insert", "fill", "sort", "pop", "remove", "extend") or f.attr == "clear":
                tgt = f.value
                b = self.static_base(st, tgt)
                if isinstance(b, tuple) and b[0] == "local":
                    v = st.locals.get(b[1], UNBOUND)
                    if isinstance(v, SList) or v is UNBOUND or f.attr != "remove":
                        loc.add(b[1])
                        return
                if isinstance(b, tuple) and b[0] == "field":
                    self._mod_field(b[1], b[2], "struct", heap)
                    return
                if isinstance(b, tuple) and b[0] == "nodefield":
                    heap.add((b[1], "nodes." + b[2], "struct"))
                    return
                if isinstance(b, tuple) and b[0] == "nodelist" and f.attr == "append":
                    for ff in st.heap[b[1]]:
                        if ff.startswith("nodes"):
                            heap.add((b[1], ff, "struct"))
                    return
                if isinstance(b, ObjRef):
                    pass  # a method called `remove`/`insert` on an object: falls through to contracts
                elif f.attr in ("append", "insert", "fill"):
                    raise Unsupported("cannot resolve mutated list at line %d" % n.lineno)
            base = self.static_base(st, f.value)
            if isinstance(base, ObjRef):
                owner, m = self.repo.find_method(base.cls, f.attr)
                if m is None:
                    return
                q = self.method_qualname(owner, f.attr)
                if q in REGISTRY and not REGISTRY[q].inline:
                    for (oid, fld) in self.modset_of_contract(REGISTRY[q], {"self": base}, st):
                        heap.add((oid, fld, "struct"))
                else:
                    # inline: walk the callee body with self bound
                    sub = State()
                    sub.heap = st.heap
                    sub.locals = {"self": base}
                    l2 = set()
                    for s in strip_docstring(m):
                        self._modset_stmt(sub, s, l2, heap)
        elif isinstance(f, ast.Name):
            pass

    def method_qualname(self, owner_cls, name):
        ci = self.repo.classes[owner_cls]
        return "%s.%s.%s" % (ci.module, owner_cls, name)

    def modset_of_contract(self, c, binding, st):
        out = set()
        for path in c.modifies:
            parts = path.split(".")
            v = binding.get(parts[0])
            if v is None:
                continue
            ok = True
            for f in parts[1:-1]:
                if not isinstance(v, ObjRef):
                    ok = False
                    break
                if f == "nodes":
                    break
                v = st.heap[v.oid].get(f)
            if not ok or not isinstance(v, ObjRef):
                continue
            rest = parts[1:]
            if "nodes" in rest:
                k = rest.index("nodes")
                fld = "nodes." + ".".join(rest[k + 1:])
                if fld == "nodes.":
                    # whole node list
                    for ff in st.heap[v.oid]:
                        if ff.startswith("nodes"):
                            out.add((v.oid, ff))
                    continue
                out.add((v.oid, fld))
                if (fld + ".len") in st.heap[v.oid]:
                    out.add((v.oid, fld + ".len"))
            else:
                out.add((v.oid, parts[-1]))
        return out

    # ---------------- assignment

    def assign(self, st, tgt, val, stmt):
        if isinstance(tgt, ast.Name):
            ty = self.contract.locals_types.get(tgt.id) if not self.cur_fn_stack else None
            if ty and ty.startswith("list[") and isinstance(val, SList) and isinstance(val.length, int) \
                    and val.length == 0 and val.elem != ty[5:-1]:
                val = SList(fresh("list", z3.ArraySort(INT, sort_of(ty[5:-1]))), 0, ty[5:-1])   # typed empty list
            if isinstance(val, SList) and getattr(val, "view_of_matrix", False):
                if not hasattr(self, "view_names"):
                    self.view_names = set()
                self.view_names.add(tgt.id)       # a local bound to a numpy row VIEW (aliases the matrix)
            st.locals[tgt.id] = val
            st.defined.pop(tgt.id, None)
            return
        if isinstance(tgt, (ast.Tuple, ast.List)):
            if not isinstance(val, tuple) or len(val) != len(tgt.elts):
                raise Unsupported("tuple assignment shape")
            for t, v in zip(tgt.elts, val):
                self.assign(st, t, v, stmt)
            return
        if isinstance(tgt, ast.Attribute):
            base = self.eval(st, tgt.value)
            self.set_attr(st, base, tgt.attr, val, stmt)
            return
        if isinstance(tgt, ast.Subscript):
            idx = self.eval(st, tgt.slice)
            cur = self.eval(st, tgt.value)
            if isinstance(cur, SList):
                if isinstance(tgt.value, ast.Name) and (getattr(cur, "view_of_matrix", False)
                                                        or tgt.value.id in getattr(self, "view_names", ())):
                    raise Unsupported("store through a local that aliases a matrix row (numpy view) at line %d"
                                      % getattr(stmt, "lineno", 0))
                self.check_index(st, cur, idx, tgt)
                new = SList(z3.Store(cur.arr, L.lift(idx, INT), L.lift(val, sort_of(cur.elem))), cur.length, cur.elem)
                self.assign(st, tgt.value, new, stmt) if not isinstance(tgt.value, ast.Attribute) else \
                    self.store_list_field(st, tgt.value, new, stmt)
                return
            if isinstance(cur, SMat) and isinstance(val, SList):
                self.oblige(st, "safe", "index", "row", L.conj(L.le(0, idx), L.lt(idx, cur.nrows)), tgt)
                new = SMat(z3.Store(cur.arr, L.lift(idx, INT), val.arr), cur.nrows, cur.ncols)
                self.assign(st, tgt.value, new, stmt)
                return
            raise Unsupported("subscript store into %r" % (cur,))
        raise Unsupported("assignment target")

    def store_list_field(self, st, attr_node, new, stmt):
        """write back a list value to the field it was read from, bypassing the property setter
        (in-place mutation of the same list object)"""
        base = self.eval(st, attr_node.value)
        f = attr_node.attr.lstrip("_")
        if isinstance(base, ObjRef):
            self.frame_check(st, base.oid, f, stmt)
            st.heap[base.oid][f] = new
        elif isinstance(base, NodeRef):
            self.frame_check(st, base.oid, "nodes." + f, stmt)
            self.node_set(st, base.oid, base.idx, f, new)
        else:
            raise Unsupported("list field store base")

    def frame_check(self, st, oid, f, stmt):
        pass  # frame conditions are checked semantically at function exit (check_frame)

    def set_attr(self, st, base, attr, val, stmt):
        if isinstance(base, ObjRef):
            if attr.startswith("_"):
                if SCHEMAS.get(base.cls, {}).get(attr[1:]) == "nodes":
                    if isinstance(val, SList) and isinstance(val.length, int) and val.length == 0:
                        st.heap[base.oid]["nodes.len"] = 0     # self.nodes = []
                        return
                    raise Unsupported("assignment of a non-empty list to the node list")
                st.heap[base.oid][attr[1:]] = val
                return
            owner, setter = self.repo.find_setter(base.cls, attr)
            if setter is not None:
                self.inline_call(st, setter, owner, [base, val], stmt, what="setter")
                return
            st.heap[base.oid][attr] = val
            return
        if isinstance(base, NodeRef):
            if attr.startswith("_"):
                self.node_set(st, base.oid, base.idx, attr[1:], val)
                return
            owner, setter = self.repo.find_setter("Node", attr)
            if setter is not None:
                self.inline_call(st, setter, owner, [base, val], stmt, what="setter")
                return
            self.node_set(st, base.oid, base.idx, attr, val)
            return
        raise Unsupported("attribute store on %r" % (base,))

    def check_index(self, st, lst, idx, node):
        base = getattr(node, "value", None)
        if isinstance(base, ast.Name) and base.id.startswith("g_"):
            return   # ghost arrays are logical maps: no bounds
        self.oblige(st, "safe", "index", "inrange", L.conj(L.le(0, idx), L.lt(idx, lst.length)), node)

    # ---------------- expressions

    def truth(self, st, v, node):
        if isinstance(v, bool):
            return v
        if L.is_z3(v):
            if z3.is_bool(v):
                if z3.is_true(v):
                    return True
                if z3.is_false(v):
                    return False
                return v
            return v != 0
        if v is None:
            return False
        if isinstance(v, (int, float)):
            return bool(v)
        if isinstance(v, ObjRef):
            return True
        if isinstance(v, SList):
            return L.gt(v.length, 0)
        if isinstance(v, str):
            return bool(v)
        raise Unsupported("truth value of %r" % (v,))

    def eval(self, st, e):
        m = getattr(self, "expr_" + type(e).__name__, None)
        if m is None:
            raise Unsupported("expression %s at line %d" % (type(e).__name__, getattr(e, "lineno", 0)))
        return m(st, e)

    def expr_Constant(self, st, e):
        return e.value

    def expr_Name(self, st, e):
        if e.id in st.locals:
            d = st.defined.get(e.id, True)
            if d is not True:
                self.oblige(st, "safe", "bound", e.id, d, e)
                st.defined.pop(e.id, None)
            return st.locals[e.id]
        if e.id in ("True", "False", "None"):
            return {"True": True, "False": False, "None": None}[e.id]
        if e.id in self.aliases:
            a = self.aliases[e.id]
            if a[0] == "module":
                return ModRef("module", a[1])
            if a[2] in self.repo.classes:
                return ClassVal(a[2])
            full = "%s.%s" % (a[1], a[2])
            if full in self.repo.modules or any(k.startswith(full + ".") for k in self.repo.modules):
                return ModRef("module", full)
            return ModRef("name", full)
        if e.id in self.repo.classes:
            return ClassVal(e.id)
        if e.id in ("int", "float", "list", "bool", "str"):
            return ClassVal(e.id)
        # a local that is not bound on this path
        if self.is_local_name(e.id):
            self.oblige(st, "safe", "bound", e.id, False, e)
            raise Unsupported("read of unbound local %s" % e.id)
        raise Unsupported("name %s" % e.id)

    def is_local_name(self, name):
        for n in ast.walk(self.fn):
            if isinstance(n, ast.Name) and n.id == name and isinstance(n.ctx, ast.Store):
                return True
        return False

    def expr_Slice(self, st, e):
        if e.step is not None:
            raise Unsupported("slice step")
        if e.lower is None and e.upper is None:
            return ("slice",)
        lo = self.eval(st, e.lower) if e.lower is not None else None
        hi = self.eval(st, e.upper) if e.upper is not None else None
        return ("slice", lo, hi)

    def expr_Tuple(self, st, e):
        return tuple(self.eval(st, x) for x in e.elts)

    def expr_List(self, st, e):
        if not e.elts:
            return SList(z3.K(INT, z3.IntVal(0)), 0, "int")
        return ("pylist", [self.eval(st, x) for x in e.elts])

    def expr_ListComp(self, st, e):
        # [x.attr for x in <node list>]
        if len(e.generators) == 1 and not e.generators[0].ifs and isinstance(e.generators[0].target, ast.Name) \
                and isinstance(e.elt, ast.Attribute) and isinstance(e.elt.value, ast.Name) \
                and e.elt.value.id == e.generators[0].target.id:
            it = self.eval(st, e.generators[0].iter)
            if isinstance(it, NodeList):
                f = e.elt.attr
                owner, getter = self.repo.find_getter("Node", f)
                if getter is not None and not (len(strip_docstring(getter)) == 1 and
                                               ast.unparse(strip_docstring(getter)[0]) == "return self._%s" % f):
                    raise Unsupported("node getter %s is not a plain field read" % f)
                nty = SCHEMAS["Node"][f]
                return SList(st.heap[it.oid]["nodes." + f], st.heap[it.oid]["nodes.len"], nty)
        # [const for _ in range(n)]
        if len(e.generators) == 1 and not e.generators[0].ifs:
            g = e.generators[0]
            if isinstance(g.iter, ast.Call) and isinstance(g.iter.func, ast.Name) and g.iter.func.id == "range" \
                    and len(g.iter.args) == 1:
                names = {n.id for n in ast.walk(e.elt) if isinstance(n, ast.Name)}
                tn = {n.id for n in ast.walk(g.target) if isinstance(n, ast.Name)}
                if not (names & tn):
                    n = self.eval(st, g.iter.args[0])
                    v = self.eval(st, e.elt)
                    if isinstance(v, float) or (L.is_z3(v) and z3.is_real(v)):
                        return SList(z3.K(INT, L.realval(v)), n, "real")
                    if isinstance(v, int) or (L.is_z3(v) and z3.is_int(v)):
                        return SList(z3.K(INT, L.lift(v, INT)), n, "int")
                # [E(t) for t in range(n)] with E mentioning t: a fresh array defined pointwise (ghost maps)
                if isinstance(g.target, ast.Name):
                    n = self.eval(st, g.iter.args[0])
                    t = L.fresh_int("lc")
                    saved = st.locals.get(g.target.id, UNBOUND)
                    st.locals[g.target.id] = t
                    n0, p0 = len(self.obligations), len(st.pc)
                    v = self.eval(st, e.elt)
                    del self.obligations[n0:]          # no safety obligations for the bound variable's body,
                    del st.pc[p0:]                     # and nothing assumed about the bound variable either
                    if saved is UNBOUND:
                        st.locals.pop(g.target.id, None)
                    else:
                        st.locals[g.target.id] = saved
                    if isinstance(v, float) or (L.is_z3(v) and z3.is_real(v)):
                        elem, vz = "real", L.realval(v)
                    elif isinstance(v, bool) or (L.is_z3(v) and z3.is_bool(v)):
                        raise Unsupported("boolean ghost map")
                    else:
                        elem, vz = "int", L.lift(v, INT)
                    arr = fresh("lc", z3.ArraySort(INT, sort_of(elem)))
                    st.assume(z3.ForAll([t], z3.Implies(z3.And(t >= 0, t < L.lift(n, INT)), z3.Select(arr, t) == vz),
                                        patterns=[z3.Select(arr, t)]))
                    return SList(arr, n, elem)
        raise Unsupported("list comprehension at line %d" % e.lineno)

    def expr_Attribute(self, st, e):
        base = self.eval(st, e.value)
        return self.get_attr(st, base, e.attr, e)

    def get_attr(self, st, base, attr, node):
        if isinstance(base, ModRef):
            if base.kind == "module":
                mod = base.name
                if mod == "opfython.utils.constants":
                    if attr not in self.repo.constants:
                        raise Unsupported("unknown constant %s" % attr)
                    return self.repo.constants[attr]
                if mod == "opfython.utils.exception":
                    return ExcVal(attr)
                return ModRef("name", mod + "." + attr)
            return ModRef("name", base.name + "." + attr)
        if isinstance(base, ObjRef):
            fields = st.heap[base.oid]
            if attr.lstrip("_") == "nodes" and "nodes.len" in fields:
                return NodeList(base.oid)
            if attr.startswith("_") and attr[1:] in fields:
                return fields[attr[1:]]
            owner, getter = self.repo.find_getter(base.cls, attr)
            if getter is not None:
                return self.inline_call(st, getter, owner, [base], node, what="getter")
            if attr in fields:
                v = fields[attr]
                return NodeList(base.oid) if attr == "nodes" else v
            owner, m = self.repo.find_method(base.cls, attr)
            if m is not None:
                return BoundMethod(base, attr)
            raise Unsupported("attribute %s.%s" % (base.cls, attr))
        if isinstance(base, NodeRef):
            f = attr[1:] if attr.startswith("_") else attr
            if not attr.startswith("_"):
                owner, getter = self.repo.find_getter("Node", attr)
                if getter is not None:
                    return self.inline_call(st, getter, owner, [base], node, what="getter")
            return self.node_get(st, base.oid, base.idx, f)
        if isinstance(base, SList):
            if attr in ("append", "insert", "fill"):
                return BoundMethod(base, attr)
            if attr == "shape":
                return (base.length,)
        if L.is_z3(base) and base.sort() == FEAT and attr == "shape":
            d = FDIM(base)
            st.assume(d >= 1)
            return (d,)
        if isinstance(base, NodeList):
            if attr == "append":
                return BoundMethod(base, attr)
        if isinstance(base, Matrix) and attr == "shape":
            return base.shape
        raise Unsupported("attribute %s on %r at line %d" % (attr, base, getattr(node, "lineno", 0)))

    def expr_Subscript(self, st, e):
        base = self.eval(st, e.value)
        idx = self.eval(st, e.slice)
        if isinstance(base, SList) and isinstance(idx, tuple) and len(idx) == 2 and idx[1] == ("slice",) \
                and not isinstance(idx[0], SList):
            self.check_index(st, base, idx[0], e)      # X[j, :] : row j of a 2-D array modelled as a list of rows
            return base[idx[0]]
        if isinstance(base, SList) and isinstance(idx, tuple) and len(idx) == 3 and idx[0] == "slice":
            # v[lo:hi] with 0 <= lo <= hi <= len (checked): a fresh list of the selected entries
            lo = 0 if idx[1] is None else idx[1]
            hi = base.length if idx[2] is None else idx[2]
            self.oblige(st, "safe", "slice", "bounds", L.conj(L.le(0, lo), L.le(lo, hi), L.le(hi, base.length)), e)
            new = fresh("slice", base.arr.sort())
            r = L.fresh_int("sl")
            st.assume(z3.ForAll([r], z3.Implies(z3.And(r >= 0, r < L.lift(hi - lo, INT)),
                                                z3.Select(new, r) == z3.Select(base.arr, L.lift(lo, INT) + r)),
                                patterns=[z3.Select(new, r)]))
            return SList(new, hi - lo, base.elem)
        gidx = idx[0] if (isinstance(idx, tuple) and len(idx) == 2 and idx[1] == ("slice",)) else idx
        if isinstance(base, SList) and isinstance(gidx, SList) and gidx.elem == "int":
            # fancy indexing with an integer array: a fresh array (copy) of the selected rows / entries
            self.oblige(st, "safe", "index", "gather-in-range",
                        L.forall(0, gidx.length, lambda k: L.conj(L.le(0, gidx[k]), L.lt(gidx[k], base.length))), e)
            new = fresh("gather", base.arr.sort())
            r = L.fresh_int("ga")
            st.assume(z3.ForAll([r], z3.Implies(z3.And(r >= 0, r < L.lift(gidx.length, INT)),
                                                z3.Select(new, r) == z3.Select(base.arr, z3.Select(gidx.arr, r))),
                                patterns=[z3.Select(new, r)]))
            return SList(new, gidx.length, base.elem)
        if isinstance(base, SList):
            self.check_index(st, base, idx, e)
            return base[idx]
        if isinstance(base, SMat):
            self.oblige(st, "safe", "index", "row", L.conj(L.le(0, idx), L.lt(idx, base.nrows)), e)
            row = base[idx]
            try:
                row.view_of_matrix = True     # numpy hands out a VIEW of the row; values are modelled, aliasing is not
            except AttributeError:
                pass
            return row
        if isinstance(base, NodeList):
            n = st.heap[base.oid]["nodes.len"]
            self.oblige(st, "safe", "index", "node", L.conj(L.le(0, idx), L.lt(idx, n)), e)
            return NodeRef(base.oid, L.lift(idx, INT))
        if isinstance(base, Opt):
            self.oblige(st, "safe", "none", "present", base.present, e)
            self.check_index(st, base.value, idx, e)
            return base.value[idx]
        if isinstance(base, Matrix):
            return base[idx]
        if isinstance(base, MatrixRow):
            return base[idx]
        if isinstance(base, tuple) and base and isinstance(base[0], str) and base[0] == "pylist" and isinstance(idx, int):
            return base[1][idx]
        if isinstance(base, tuple):
            if isinstance(idx, int):
                return base[idx]
        raise Unsupported("subscript of %r at line %d" % (base, e.lineno))

    def expr_UnaryOp(self, st, e):
        v = self.eval(st, e.operand)
        if isinstance(e.op, ast.Not):
            return L.neg(self.truth(st, v, e))
        if isinstance(e.op, ast.USub):
            return -v
        if isinstance(e.op, ast.UAdd):
            return v
        raise Unsupported("unary op")

    def expr_BoolOp(self, st, e):
        # short circuit: later operands are evaluated under the assumption of the earlier ones
        vals = []
        n0 = len(st.pc)
        for sub in e.values:
            t = self.truth(st, self.eval(st, sub), sub)
            vals.append(t)
            if isinstance(e.op, ast.And):
                if t is False:
                    break
                st.assume(t)
            else:
                if t is True:
                    break
                st.assume(L.neg(t))
        # remove the temporary assumptions but keep facts (obligation goals, callee posts) added meanwhile
        added = st.pc[n0:]
        del st.pc[n0:]
        temp_ids = set()
        for t in vals:
            if L.is_z3(t):
                temp_ids.add(t.get_id())
                temp_ids.add(z3.Not(t).get_id())
        # facts established under a guard are kept as guarded facts
        guard = []
        for t, a in zip(vals, range(len(vals))):
            pass
        keep = [a for a in added if a.get_id() not in temp_ids]
        if keep:
            # they were derived under the prefix assumptions; weaken accordingly
            if isinstance(e.op, ast.And):
                pre = [L.to_z3_bool(t) for t in vals[:-1] if t is not True]
            else:
                pre = [L.to_z3_bool(L.neg(t)) for t in vals[:-1] if t is not False]
            for a in keep:
                st.pc.append(z3.Implies(z3.And(*pre), a) if pre else a)
        if isinstance(e.op, ast.And):
            return L.conj(*vals)
        return L.disj(*vals)

    def expr_IfExp(self, st, e):
        c = self.truth(st, self.eval(st, e.test), e.test)
        if c is True:
            return self.eval(st, e.body)
        if c is False:
            return self.eval(st, e.orelse)
        # each arm is evaluated under its guard (its safety obligations and facts hold only when it is taken)
        cz = L.to_z3_bool(c)
        vals = []
        for guard, arm in ((cz, e.body), (z3.Not(cz), e.orelse)):
            n0 = len(st.pc)
            st.pc.append(guard)
            v = self.eval(st, arm)
            added = st.pc[n0 + 1:]
            del st.pc[n0:]
            for t in added:
                st.pc.append(z3.Implies(guard, t))
            vals.append(v)
        return merge_values(c, vals[0], vals[1])

    def expr_Compare(self, st, e):
        left = self.eval(st, e.left)
        res = []
        for op, rhs_e in zip(e.ops, e.comparators):
            right = self.eval(st, rhs_e)
            res.append(self.compare(st, op, left, right, e))
            left = right
        return L.conj(*res)

    def compare(self, st, op, a, b, node):
        if isinstance(op, (ast.Is, ast.IsNot)) and (isinstance(a, Opt) or isinstance(b, Opt)):
            o = a if isinstance(a, Opt) else b
            other = b if isinstance(a, Opt) else a
            if other is not None:
                raise Unsupported("`is` between optional and non-None")
            r = L.neg(o.present)
            return r if isinstance(op, ast.Is) else L.neg(r)
        if isinstance(op, (ast.Is, ast.IsNot)):
            if b is None or a is None:
                r = (a is None) == (b is None)
                if not r and (a is None or b is None):
                    other = b if a is None else a
                    if other is None:
                        r = True
                    else:
                        r = False
            elif isinstance(a, bool) and isinstance(b, bool):
                r = a == b
            else:
                raise Unsupported("`is` on non-None values")
            return r if isinstance(op, ast.Is) else (not r)
        if isinstance(op, (ast.In, ast.NotIn)):
            if isinstance(b, tuple) and b and isinstance(b[0], str) and b[0] == "pylist":
                items = b[1]
            elif isinstance(b, tuple):
                items = list(b)
            else:
                raise Unsupported("`in` on non-literal")
            r = L.disj(*[self.compare(st, ast.Eq(), a, x, node) for x in items])
            return r if isinstance(op, ast.In) else L.neg(r)
        if isinstance(a, str) or isinstance(b, str):
            if isinstance(a, str) and isinstance(b, str):
                r = a == b
            else:
                r = L.eq(a, b)
            if isinstance(op, ast.Eq):
                return r
            if isinstance(op, ast.NotEq):
                return L.neg(r)
            raise Unsupported("string ordering")
        if a is None or b is None:
            r = (a is None and b is None)
            if isinstance(op, ast.Eq):
                return r
            if isinstance(op, ast.NotEq):
                return not r
        fn = {ast.Eq: L.eq, ast.NotEq: L.ne, ast.Lt: L.lt, ast.LtE: L.le, ast.Gt: L.gt, ast.GtE: L.ge}.get(type(op))
        if fn is None:
            raise Unsupported("comparison operator")
        if isinstance(a, (ObjRef, SList, NodeRef)) or isinstance(b, (ObjRef, SList, NodeRef)):
            raise Unsupported("comparison of objects")
        return fn(a, b)

    def expr_BinOp(self, st, e):
        a = self.eval(st, e.left)
        b = self.eval(st, e.right)
        return self.binop(st, e.op, a, b, e)

    def binop(self, st, op, a, b, node):
        if isinstance(a, SList) or isinstance(b, SList):
            # numpy elementwise arithmetic (scalar operands are broadcast): a fresh vector defined pointwise
            ref = a if isinstance(a, SList) else b
            if isinstance(a, SList) and isinstance(b, SList):
                self.oblige(st, "safe", "shape", "same-length", L.eq(a.length, b.length), node)
            r = L.fresh_int("el")
            ea = a[r] if isinstance(a, SList) else a
            eb = b[r] if isinstance(b, SList) else b
            n0, p0 = len(self.obligations), len(st.pc)
            ev = self.binop(st, op, ea, eb, node)
            del self.obligations[n0:]
            del st.pc[p0:]
            if isinstance(op, ast.Div):
                if isinstance(b, SList):
                    self.oblige(st, "safe", "div", "elements-nonzero", L.forall(0, b.length, lambda k: L.ne(b[k], 0)), node)
                else:
                    self.oblige(st, "safe", "div", "nonzero", L.ne(b, 0), node)
            is_real = L.is_z3(ev) and z3.is_real(ev) or isinstance(ev, float)
            elem = "real" if is_real else "int"
            new = fresh("vec", z3.ArraySort(INT, sort_of(elem)))
            st.assume(z3.ForAll([r], z3.Implies(z3.And(r >= 0, r < L.lift(ref.length, INT)),
                                                z3.Select(new, r) == L.lift(ev, sort_of(elem))),
                                patterns=[z3.Select(new, r)]))
            return SList(new, ref.length, elem)
        sym = L.is_z3(a) or L.is_z3(b)
        if isinstance(a, str) and isinstance(b, str) and isinstance(op, ast.Add):
            return a + b
        if not sym:
            try:
                if isinstance(op, ast.Add):
                    return a + b
                if isinstance(op, ast.Sub):
                    return a - b
                if isinstance(op, ast.Mult):
                    return a * b
                if isinstance(op, ast.Div):
                    return a / b
                if isinstance(op, ast.FloorDiv):
                    return a // b
                if isinstance(op, ast.Mod):
                    return a % b
                if isinstance(op, ast.Pow):
                    return a ** b
            except Exception as ex:
                raise Unsupported("constant arithmetic: %s" % ex)
        if isinstance(op, ast.Div):
            a2, b2 = L.realval(a), L.realval(b)
            self.oblige(st, "safe", "div", "nonzero", b2 != 0, node)
            return a2 / b2
        a, b = L.coerce_pair(a, b)
        if isinstance(op, ast.Add):
            return a + b
        if isinstance(op, ast.Sub):
            return a - b
        if isinstance(op, ast.Mult):
            return a * b
        if isinstance(op, ast.FloorDiv) and z3.is_int(a):
            self.oblige(st, "safe", "div", "nonzero", b != 0, node)
            return a / b
        if isinstance(op, ast.Pow):
            if not L.is_z3(b) or z3.is_int_value(b) and b.as_long() == 2:
                return a * a
        raise Unsupported("binary operator %s" % type(op).__name__)

    # ---------------- calls

    def expr_Call(self, st, e):
        f = e.func
        if self.is_dropped_call(e):
            return None
        # builtins by name
        if isinstance(f, ast.Name) and f.id not in st.locals:
            nm = f.id
            if nm == "int":
                return self.builtin_int(st, self.eval(st, e.args[0]), e)
            if nm == "float":
                return L.realval(self.eval(st, e.args[0]))
            if nm == "len":
                v = self.eval(st, e.args[0])
                if isinstance(v, SList):
                    return v.length
                if isinstance(v, NodeList):
                    return st.heap[v.oid]["nodes.len"]
                raise Unsupported("len of %r" % (v,))
            if nm == "isinstance":
                return self.builtin_isinstance(st, e)
            if nm == "callable":
                v = self.eval(st, e.args[0])
                return isinstance(v, (FnVal, BoundMethod))
            if nm == "super":
                return ("super",)
            if nm in self.repo.classes or (nm in self.aliases and self.aliases[nm][0] == "name"
                                           and self.aliases[nm][2] in self.repo.classes):
                cls = nm if nm in self.repo.classes else self.aliases[nm][2]
                return self.construct(st, cls, e)
            qn = self.modname + "." + nm
            if qn in REGISTRY or (self.qualname, qn) in CALL_OVERRIDES:
                args = [self.eval(st, a) for a in e.args]
                kwargs = {k.arg: self.eval(st, k.value) for k in e.keywords}
                return self.contract_call(st, qn, None, args, kwargs, e)
            if qn in self.repo.functions and self.repo.functions[qn][2] is None:
                # a module-level helper without a contract: inlined
                args = [self.eval(st, a) for a in e.args]
                kwargs = {k.arg: self.eval(st, k.value) for k in e.keywords}
                return self.inline_call(st, self.repo.functions[qn][0], None, args, e, kwargs=kwargs)
            if nm in ("abs",):
                v = self.eval(st, e.args[0])
                return L.ite(L.ge(v, 0), v, -v)
            if nm in ("min", "max") and len(e.args) == 2:
                a, b = self.eval(st, e.args[0]), self.eval(st, e.args[1])
                return L.vmin(a, b) if nm == "min" else L.vmax(a, b)
            raise Unsupported("call to %s at line %d" % (nm, e.lineno))
        if isinstance(f, ast.Name) and isinstance(st.locals.get(f.id), FnVal):
            return st.locals[f.id](*[self.eval(st, a) for a in e.args])
        if isinstance(f, ast.Subscript) and ast.unparse(f.value) in ("d.DISTANCES", "DISTANCES"):
            # the registry entry selected by name: `the metric`, an application of the uninterpreted DFN
            args = [self.eval(st, a) for a in e.args]
            return DFN(args[0], args[1])
        if isinstance(f, ast.Attribute) and not (isinstance(f.value, ast.Name) and f.value.id in self.aliases):
            try:
                b0 = self.eval(st, f.value) if isinstance(f.value, (ast.Name, ast.Constant)) else None
            except Unsupported:
                b0 = None
            if isinstance(b0, str) and f.attr in ("split", "endswith", "startswith", "lower", "upper", "strip"):
                cargs = [self.eval(st, a) for a in e.args]
                if all(isinstance(a, (str, int)) for a in cargs):
                    r = getattr(b0, f.attr)(*cargs)
                    return ("pylist", list(r)) if isinstance(r, list) else r
        if isinstance(f, ast.Attribute) and isinstance(f.value, ast.Call) and isinstance(f.value.func, ast.Name) \
                and f.value.func.id == "super":
            # super(Class, self).method(...): resolved statically in the bases of Class
            sargs = f.value.args
            cls = sargs[0].id if sargs else self.clsname
            recv = st.locals.get("self")
            if cls not in self.repo.classes or not isinstance(recv, ObjRef):
                raise Unsupported("super() call")
            owner, m = None, None
            for b in self.repo.classes[cls].bases:
                owner, m = self.repo.find_method(b, f.attr)
                if m is not None:
                    break
            if m is None:
                raise Unsupported("super().%s not found" % f.attr)
            args = [self.eval(st, a) for a in e.args]
            kwargs = {k.arg: self.eval(st, k.value) for k in e.keywords}
            q = self.method_qualname(owner, f.attr)
            if q in REGISTRY and not REGISTRY[q].inline:
                return self.contract_call(st, q, recv, args, kwargs, e)
            return self.inline_call(st, m, owner, [recv] + args, e, kwargs=kwargs)
        if isinstance(f, ast.Attribute):
            # module functions
            if isinstance(f.value, ast.Name) and f.value.id in self.aliases and f.value.id not in st.locals:
                a = self.aliases[f.value.id]
                full = (a[1] if a[0] == "module" else "%s.%s" % (a[1], a[2])) + "." + f.attr
                return self.call_module_fn(st, full, e)
            if isinstance(f.value, ast.Attribute) and isinstance(f.value.value, ast.Name) \
                    and f.value.value.id in self.aliases and f.value.value.id not in st.locals:
                a = self.aliases[f.value.value.id]
                full = (a[1] if a[0] == "module" else "%s.%s" % (a[1], a[2])) + "." + f.value.attr + "." + f.attr
                if full in EXTERNALS:
                    return self.call_module_fn(st, full, e)
            base = self.eval(st, f.value)
            if isinstance(base, ObjRef):
                fields = st.heap[base.oid]
                if f.attr in fields and isinstance(fields[f.attr], FnVal):
                    args = [self.eval(st, a) for a in e.args]
                    return fields[f.attr](*args)
                owner, getter = self.repo.find_getter(base.cls, f.attr)
                if getter is not None:
                    fv = self.inline_call(st, getter, owner, [base], e, what="getter")
                    if isinstance(fv, FnVal):
                        args = [self.eval(st, a) for a in e.args]
                        return fv(*args)
                owner, m = self.repo.find_method(base.cls, f.attr)
                if m is None:
                    raise Unsupported("method %s.%s" % (base.cls, f.attr))
                args = [self.eval(st, a) for a in e.args]
                kwargs = {k.arg: self.eval(st, k.value) for k in e.keywords}
                q = self.method_qualname(owner, f.attr)
                if q in REGISTRY and not REGISTRY[q].inline:
                    return self.contract_call(st, q, base, args, kwargs, e)
                return self.inline_call(st, m, owner, [base] + args, e, kwargs=kwargs)
            if isinstance(base, SList):
                return self.list_method(st, f, base, e)
            if isinstance(base, NodeList) and f.attr == "append":
                arg = self.eval(st, e.args[0])
                if not (isinstance(arg, ObjRef) and arg.cls == "Node"):
                    raise Unsupported("append of a non-Node to the node list")
                if arg.oid not in st.fresh_objs:
                    raise Unsupported("append of a Node that was not constructed in this function "
                                      "(the struct-of-arrays view needs pairwise distinct nodes)")
                st.fresh_objs.discard(arg.oid)    # a node object may be appended once
                fields = st.heap[base.oid]
                n = fields["nodes.len"]
                for nf in SCHEMAS["Node"]:
                    self.node_set(st, base.oid, L.lift(n, INT), nf, st.heap[arg.oid][nf])
                fields["nodes.len"] = n + 1
                return None
            if L.is_z3(base) and f.attr == "item":
                return base
            if isinstance(base, (int, float)) and f.attr == "item":
                return base
        raise Unsupported("call %s at line %d" % (ast.unparse(f), e.lineno))

    def builtin_int(self, st, v, node):
        if isinstance(v, (int, float)):
            return int(v)
        if z3.is_int(v):
            return v
        if z3.is_real(v):
            return z3.If(v >= 0, z3.ToInt(v), -z3.ToInt(-v))
        raise Unsupported("int() of %r" % (v,))

    def builtin_isinstance(self, st, e):
        v = self.eval(st, e.args[0])
        tnode = e.args[1]
        if isinstance(tnode, ast.Name) and tnode.id not in ("int", "float", "bool", "str", "list", "tuple", "dict"):
            # a module-level constant naming the accepted types, e.g. _NUMERIC_TYPES = (float, int, np.int32)
            tree = self.repo.modules.get(self.modname)
            for top in (tree.body if tree is not None else []):
                if isinstance(top, ast.Assign) and len(top.targets) == 1 and isinstance(top.targets[0], ast.Name) \
                        and top.targets[0].id == tnode.id and isinstance(top.value, (ast.Tuple, ast.Name, ast.Attribute)):
                    tnode = top.value
                    break
        tnames = [ast.unparse(x) for x in (tnode.elts if isinstance(tnode, ast.Tuple) else [tnode])]
        kinds = set()
        if isinstance(v, bool) or (L.is_z3(v) and z3.is_bool(v)):
            kinds = {"bool", "int"}
        elif isinstance(v, int) or (L.is_z3(v) and z3.is_int(v)):
            kinds = {"int"}
        elif isinstance(v, float) or (L.is_z3(v) and z3.is_real(v)):
            kinds = {"float"}
        elif isinstance(v, SList):
            kinds = {"list"}
        elif L.is_z3(v) and v.sort() == FEAT:
            kinds = {"ndarray"}
        elif isinstance(v, str):
            kinds = {"str"}
        elif isinstance(v, ObjRef):
            kinds = set(self.repo.mro(v.cls))
        elif v is None:
            kinds = set()
        else:
            raise Unsupported("isinstance of %r" % (v,))
        return any(t.split(".")[-1] in kinds for t in tnames)

    def list_method(self, st, f, base, e):
        args = [self.eval(st, a) for a in e.args]
        if f.attr == "append":
            val0 = args[0]
            if isinstance(base.length, int) and base.length == 0 and L.is_z3(val0) and val0.sort() != sort_of(base.elem):
                # first append to a literal [] fixes the element sort
                el = {FEAT: "feat", REAL: "real", INT: "int", BOOL: "bool"}.get(val0.sort())
                if el is None:
                    raise Unsupported("append of %s" % val0.sort())
                base = SList(fresh("list", z3.ArraySort(INT, val0.sort())), 0, el)
            new = SList(z3.Store(base.arr, L.lift(base.length, INT), L.lift(args[0], sort_of(base.elem))),
                        base.length + 1, base.elem)
        elif f.attr == "insert" and isinstance(args[0], int) and args[0] == 0:
            k = L.fresh_int("ins")
            arr = fresh("ins", base.arr.sort())
            val = L.lift(args[1], sort_of(base.elem))
            st.assume(z3.Select(arr, 0) == val)
            st.assume(z3.ForAll([k], z3.Implies(k >= 1, z3.Select(arr, k) == z3.Select(base.arr, k - 1)),
                                patterns=[z3.Select(arr, k)]))
            new = SList(arr, base.length + 1, base.elem)
        elif f.attr == "fill":
            new = SList(z3.K(INT, L.lift(args[0], sort_of(base.elem))), base.length, base.elem)
        else:
            raise Unsupported("list method %s" % f.attr)
        tgt = f.value
        if isinstance(tgt, ast.Name):
            st.locals[tgt.id] = new
        elif isinstance(tgt, ast.Attribute):
            self.store_list_field(st, tgt, new, e)
        else:
            raise Unsupported("list mutation target")
        return None

    def call_module_fn(self, st, full, e):
        args = [self.eval(st, a) for a in e.args]
        if full in ("numpy.maximum", "numpy.minimum"):
            return L.vmax(args[0], args[1]) if full.endswith("maximum") else L.vmin(args[0], args[1])
        if full == "numpy.fabs":
            v = args[0]
            return L.ite(L.ge(v, 0), v, -v)
        if full == "numpy.exp" or full == "math.exp":
            return EXP(L.realval(args[0]))
        if full in EXTERNALS:
            kwargs = {k.arg: self.eval(st, k.value) for k in e.keywords}
            return EXTERNALS[full](self, st, args, kwargs, e)
        if full == "numpy.zeros" and isinstance(args[0], tuple) and len(args[0]) == 2:
            r, c = args[0]
            for k in e.keywords:
                # an element type other than double changes what a later element store keeps (rounding / truncation)
                if not (k.arg == "dtype" and ast.unparse(k.value) in ("float", "np.float64", "numpy.float64", "'float64'")):
                    raise Unsupported("np.zeros with %s=%s" % (k.arg, ast.unparse(k.value)))
            row0 = z3.K(INT, z3.RealVal(0))
            return SMat(z3.K(INT, row0), r, c)
        if full == "numpy.zeros":
            n = args[0]
            dt = [k for k in e.keywords if k.arg == "dtype"]
            if dt and ast.unparse(dt[0].value) == "int":
                return SList(z3.K(INT, z3.IntVal(0)), n, "int")
            if dt:
                raise Unsupported("np.zeros dtype")
            return SList(z3.K(INT, z3.RealVal(0)), n, "real")
        if full == "numpy.empty" and not e.keywords and not isinstance(args[0], tuple):
            # uninitialised memory: a vector of unknown reals (nothing is known about an element until it is written)
            return fresh_list("empty", "real", args[0])
        if full == "numpy.asarray":
            return args[0]
        if full == "time.time":
            return fresh("time", REAL)
        if full in REGISTRY:
            kwargs = {k.arg: self.eval(st, k.value) for k in e.keywords}
            return self.contract_call(st, full, None, args, kwargs, e)
        raise Unsupported("module function %s at line %d" % (full, e.lineno))

    def construct(self, st, cls, e):
        owner, m = self.repo.find_method(cls, "__init__")
        q = self.method_qualname(owner, "__init__")
        ref = self.new_object(st, cls, cls.lower())
        st.fresh_objs.add(ref.oid)
        args = [self.eval(st, a) for a in e.args]
        kwargs = {k.arg: self.eval(st, k.value) for k in e.keywords}
        if q in REGISTRY and not REGISTRY[q].inline:
            self.contract_call(st, q, ref, args, kwargs, e, ctor=True)
        else:
            self.inline_call(st, m, owner, [ref] + args, e, kwargs=kwargs, what="ctor")
        return ref

    def bind_args(self, fn, args, kwargs, skip_self=False):
        a = fn.args
        names = [x.arg for x in a.args]
        defaults = [None] * (len(names) - len(a.defaults)) + list(a.defaults)
        out = {}
        for i, nm in enumerate(names):
            if i < len(args):
                out[nm] = args[i]
            elif nm in kwargs:
                out[nm] = kwargs[nm]
            elif defaults[i] is not None:
                out[nm] = ast.literal_eval(defaults[i])
            else:
                raise Unsupported("missing argument %s" % nm)
        return out

    def contract_call(self, st, q, recv, args, kwargs, node, ctor=False):
        c = CALL_OVERRIDES.get((self.qualname, q)) or REGISTRY[q]
        fn, _, _ = self.repo.function(q)
        allargs = ([recv] if recv is not None else []) + list(args)
        binding = self.bind_args(fn, allargs, kwargs)
        short = q.split(".")[-2] + "." + q.split(".")[-1] if recv is not None else q.split(".")[-1]
        anchor = "%s@L%d" % (short, self.rel_line(node))
        pre = st.copy()
        cc = {}
        pre_ns = NS(self, pre, {k: wrap(self, pre, v) for k, v in binding.items()}, "call_pre", cc)
        call_ns = NS(self, st, {k: wrap(self, st, v) for k, v in binding.items()}, "call_pre", cc)
        if not ctor or True:
            for name, term in c.requires(call_ns):
                self.oblige(st, "call", anchor, name, term, node)
        if c.decreases is not None and q == self.qualname:
            d_new = c.decreases(call_ns)
            d_old = self.contract.decreases(self.ns(self.old))
            self.oblige(st, "call", anchor, "decreases", L.conj(L.ge(d_old, 0), L.lt(d_new, d_old)), node)
        pre = st.copy()
        pre_ns = NS(self, pre, {k: wrap(self, pre, v) for k, v in binding.items()}, "call_pre", cc)
        mods = self.modset_of_contract(c, binding, st)
        self.havoc(st, set(), {(oid, f, "struct") for (oid, f) in mods})
        result = None
        rty = c.params.get("return")
        post_ns = NS(self, st, {k: wrap(self, st, v) for k, v in binding.items()}, "call_post", cc)
        if rty:
            result = self.fresh_param(st, "ret." + short, rty)
        for item in c.ensures(post_ns, pre_ns, wrap(self, st, result)):
            name, term = item[0], item[1]
            if name in c.certificate:
                continue      # a caller may always forget a post; these are large and no caller needs them
            st.assume(term, name="call.%s.%s" % (short, name))
        return result

    def rel_line(self, node):
        return getattr(node, "lineno", self.fn.lineno) - self.fn.lineno

    def inline_call(self, st, fn, owner_cls, args, node, kwargs=None, what="inline"):
        binding = self.bind_args(fn, args, kwargs or {})
        saved_locals, saved_defined = st.locals, st.defined
        saved_ctx = (self.fn, self.aliases, self.modname)
        ci = self.repo.classes.get(owner_cls)
        modname = ci.module if ci else self.modname
        depth_key = len(self.cur_fn_stack)
        if depth_key > 8:
            raise Unsupported("inline depth")
        self.cur_fn_stack.append(fn.name)
        if not hasattr(self, "inlined_fns"):
            self.inlined_fns = {}
        self.inlined_fns["%s.%s" % (owner_cls, fn.name)] = fn     # their bodies are part of this function's VCs
        base_path_len = len(st.path)
        base_pc_len = len(st.pc)
        st.locals = dict(binding)
        st.defined = {}
        self.fn_inline = fn
        self.aliases = self.repo.module_aliases(modname)
        self.modname = modname          # bare names inside the inlined body resolve in ITS module
        try:
            outs = self.exec_block(st, strip_docstring(fn))
        finally:
            self.aliases = saved_ctx[1]
            self.modname = saved_ctx[2]
            self.cur_fn_stack.pop()
        rets = []
        for (s, kind, val) in outs:
            if kind == "next":
                rets.append((s, None))
            elif kind == "return":
                rets.append((s, val))
            elif kind == "raise":
                # a raise inside an inlined setter/getter/helper must be unreachable
                self.oblige(s, "safe", "raise", "%s.%s" % (owner_cls, fn.name), False, val[1])
            else:
                raise Unsupported("break/continue escaping inline call")
        if not rets:
            raise Unsupported("inlined call never returns")
        # merge all returning paths
        cur_s, cur_v = rets[-1]
        for (s, v) in reversed(rets[:-1]):
            conds = s.path[base_path_len:]
            c = z3.And(*[L.to_z3_bool(x) for x in conds]) if conds else z3.BoolVal(True)
            merged = merge_states(c, s, cur_s, base_pc_len)
            cur_v = merge_values(c, v, cur_v) if not (v is None and cur_v is None) else None
            cur_s = merged
        cur_s.path = cur_s.path[:base_path_len]
        cur_s.locals = saved_locals
        cur_s.defined = saved_defined
        if cur_s is not st:
            st.__dict__.update(cur_s.__dict__)
        else:
            st.locals, st.defined = saved_locals, saved_defined
        return cur_v


def _as_load(t):
    import copy
    t2 = copy.deepcopy(t)
    for n in ast.walk(t2):
        if hasattr(n, "ctx"):
            n.ctx = ast.Load()
    return t2
