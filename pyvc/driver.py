"""Runs the VC generator over a set of functions under contract and discharges the obligations."""
import importlib
import multiprocessing as mp
import os
import sys
import time
import traceback

import z3

from . import logic as L
from .contracts import REGISTRY, LEMMAS
from .engine import Exec, Unsupported, SpecDrift, solve, Obligation, State
from .source import Repo, normalized_hash

SPEC_MODULES = ["specs.heap", "specs.graph", "specs.supervised", "specs.semi", "specs.knn", "specs.arcs", "specs.knn_predict", "specs.kselect", "specs.general", "specs.prune", "specs.precomputed", "specs.stream", "specs.invariance"]


def load_specs():
    for m in SPEC_MODULES:
        importlib.import_module(m)


_ALL = []


def _solve_idx(args):
    i, timeout_ms = args
    ob = _ALL[i]
    solve(ob, timeout_ms)
    return (i, ob.status, ob.seconds, ob.solver, getattr(ob, "reason", ""), str(ob.model)[:4000] if ob.model is not None else None)


def _verify_one(args):
    qualname, timeout_ms, dump = args
    t0 = time.time()
    out = {"function": qualname, "obligations": [], "error": None, "kind": "function"}
    try:
        load_specs()
        # names of fresh constants must not depend on what was generated before (stable solver behaviour)
        import itertools
        from . import engine as _eng
        _eng._ids = itertools.count()
        L._fresh = itertools.count()
        repo = Repo()
        import specs.heap as _hp
        _hp.REVEAL[0] = (".core.heap." in qualname) or (qualname.startswith("lemma:") and
                                                         "C05" in LEMMAS[qualname[6:]].props and
                                                         qualname[6:] not in ("inj_card",))
        if qualname.startswith("metricreads:"):
            # C07's view of a metric: only the obligation that its value never observes uninitialised memory
            from . import vecexpr
            from specs.metrics import METRICS
            out["kind"] = "metric"
            nm = qualname[12:]
            obs = [o for o in vecexpr.verify_metric(repo, nm, METRICS[nm], repo.constants) if "/reads/" in o.name]
            for o in obs:
                o.name = o.name.replace("metric:", "metricreads:", 1)
            fname = vecexpr.registry(repo).get(nm)
            if fname and ("opfython.math.distance." + fname) in repo.functions:
                out["hash"] = normalized_hash(repo.function("opfython.math.distance." + fname)[0])
        elif qualname.startswith("metric:") or qualname == "registry":
            from . import vecexpr
            from specs.metrics import METRICS
            out["kind"] = "metric"
            if qualname == "registry":
                obs = vecexpr.verify_registry(repo, METRICS)
            else:
                nm = qualname[7:]
                obs = vecexpr.verify_metric(repo, nm, METRICS[nm], repo.constants)
                fname = vecexpr.registry(repo).get(nm)
                if fname and ("opfython.math.distance." + fname) in repo.functions:
                    out["hash"] = normalized_hash(repo.function("opfython.math.distance." + fname)[0])
        elif qualname.startswith("axioms:"):
            from . import vecexpr
            from specs.metrics import METRICS
            out["kind"] = "axioms"
            nm = qualname[7:]
            fname = vecexpr.registry(repo).get(nm)
            if fname and ("opfython.math.distance." + fname) in repo.functions:
                out["hash"] = normalized_hash(repo.function("opfython.math.distance." + fname)[0])
            obs = vecexpr.verify_axioms(repo, nm, METRICS[nm])
            if "tri" in METRICS[nm]["axioms"].split() and nm in vecexpr.TRIANGLE_POINTWISE:
                obs += vecexpr.verify_triangle(repo, nm, METRICS[nm])
        elif qualname.startswith("static:"):
            from .contracts import STATICS
            from .engine import Obligation as _Ob
            out["kind"] = "static"
            obs = []
            for (nm, ok, line, text) in STATICS[qualname[7:]](repo):
                ob = _Ob("%s/static/%s" % (qualname, nm), "static", z3.BoolVal(bool(ok)), [], line, text)
                ob.inconclusive = ok is None      # None: the syntactic obligation does not recognise the code's shape
                ob.defs = []
                obs.append(ob)
        elif qualname.startswith("lean:"):
            # lemmas discharged by another back end: a Lean 4 + Mathlib file under /verif/lemmas, re-checked on every run;
            # one obligation per theorem the property relies on (all of them stand or fall with the file)
            import re
            import subprocess
            from .engine import Obligation as _Ob
            out["kind"] = "lemma"
            root = os.path.dirname(os.path.dirname(os.path.abspath(__file__)))
            path = os.path.join(root, "lemmas", qualname[5:] + ".lean")
            src = open(path).read()
            theorems = re.findall(r"^theorem\s+(\w+)", src, flags=re.M)
            t1 = time.time()
            try:
                pr = subprocess.run(["lean", path], capture_output=True, text=True, timeout=1500, cwd=root)
                text = (pr.stdout + pr.stderr)
                ok = pr.returncode == 0 and "error" not in text and "sorry" not in text and "sorry" not in src
            except Exception as ex_:       # lean missing / timeout: no verdict
                text, ok = "lean could not be run: %s" % ex_, False
            dt = time.time() - t1
            obs = []
            for th in theorems:
                ob = _Ob("%s/lean/%s" % (qualname, th), "lemma", z3.BoolVal(bool(ok)), [], 0,
                         "lean lemmas/%s.lean (%.1fs)%s" % (qualname[5:], dt, "" if ok else ": " + text[-300:]))
                ob.inconclusive = True      # a failure here says nothing about the code under check
                ob.backend = "lean4+mathlib"
                ob.defs = []
                obs.append(ob)
            out["lean"] = {"file": path, "theorems": theorems, "seconds": round(dt, 1), "ok": ok,
                           "version": "Lean 4 + Mathlib (lean on PATH)"}
        elif qualname.startswith("effects:"):
            from . import effects
            out["kind"] = "effects"
            obs = effects.obligations(repo, qualname[8:])
        elif qualname.startswith("lemma:"):
            lem = LEMMAS[qualname[6:]]
            obs = verify_lemma(repo, lem)
            out["kind"] = "lemma"
        else:
            c = REGISTRY[qualname]
            fn, _, _ = repo.function(qualname)
            obs = []
            inl = {}
            for cfg in c.configs:
                ex = Exec(repo, qualname, config=cfg)
                obs += ex.verify()
                inl.update(getattr(ex, "inlined_fns", {}))
                out["anchor_counts"] = dict(getattr(ex, "anchor_counts", {}))
            # the item's fingerprint: its own body plus the bodies inlined into its verification conditions (property
            # getters / setters, Node.__init__, helpers without a contract)
            import hashlib
            hh = hashlib.sha1(normalized_hash(fn).encode())
            for k in sorted(inl):
                hh.update(k.encode())
                hh.update(normalized_hash(inl[k]).encode())
            out["hash"] = hh.hexdigest()[:16]
        out["_obs"] = obs
        for ob in obs:
            if timeout_ms is None:
                break
            solve(ob, timeout_ms)
            rec = {"name": ob.name, "kind": ob.kind, "status": ob.status, "seconds": round(ob.seconds, 4),
                   "line": ob.lineno, "text": ob.text, "solver": ob.solver}
            if dump and ob.solver != "static":
                import hashlib
                d = os.path.join(os.path.dirname(os.path.dirname(os.path.abspath(__file__))), "scratch", "smt")
                os.makedirs(d, exist_ok=True)
                pth = os.path.join(d, hashlib.sha1(ob.name.encode()).hexdigest()[:16] + ".smt2")
                with open(pth, "w") as fh:
                    fh.write(ob.smt2())
                rec["smt2"] = pth
            if ob.status != "unsat":
                rec["reason"] = getattr(ob, "reason", "")
                if ob.model is not None:
                    rec["model"] = str(ob.model)[:4000]
            out["obligations"].append(rec)
    except SpecDrift as ex:
        out["error"] = ("drift", str(ex))
    except Unsupported as ex:
        out["error"] = ("unsupported", str(ex))
    except Exception as ex:
        out["error"] = ("crash", traceback.format_exc())
    out["seconds"] = round(time.time() - t0, 3)
    if timeout_ms is not None:
        out.pop("_obs", None)      # solved here: only the (picklable) records travel back
    return out


def verify_lemma(repo, lem):
    """lemma obligations: either custom VCs or strong induction on k over [lo, hi)"""
    ex = Exec.__new__(Exec)
    ex.repo = repo
    ex.qualname = "lemma:" + lem.name
    ex.config = {}
    ex.obligations = []
    ex.obl_names = {}
    ex.names = {}
    ex.defs = []
    ex._verify_ns = set()
    ex._verify_keep = []
    ex.vghost = {}
    st = State()
    from .engine import wrap
    args = {}
    for p, ty in lem.params.items():
        args[p] = wrap(ex, st, ex.fresh_param(st, p, ty))
    if getattr(lem, "vcs", None):
        for (name, assumptions, goal) in lem.vcs(**args):
            s2 = st.copy()
            for a in assumptions:
                s2.assume(a)
            ex.oblige(s2, "lemma", lem.name, name, goal)
        return ex.obligations
    for name, term in lem.hyp(**args):
        st.assume(term)
    k = L.fresh_int("ind")
    lo, hi = lem.lo(**args), lem.hi(**args)
    st.assume(L.between(lo, k, hi))
    st.assume(L.forall(lo, k, lambda j: lem.concl(k=j, **args)))
    # the instance of the induction hypothesis at the predecessor, spelled out (nested quantifiers give no trigger)
    st.assume(L.implies(L.le(lo, k - 1), lem.concl(k=k - 1, **args)))
    for (lname, binder) in getattr(lem, "uses", []):
        # another (separately proved) lemma applied inside the step: its hypotheses are obligations here
        other = LEMMAS[lname]
        oargs = binder(k=k, **args)
        for name, term in other.hyp(**oargs):
            ex.oblige(st, "lemma", lem.name, "uses.%s.%s" % (lname, name), term)
        if other.conclusion is not None:
            st.assume(other.conclusion(**oargs))
        else:
            st.assume(L.forall(other.lo(**oargs), other.hi(**oargs), lambda j: other.concl(k=j, **oargs)))
    if lem.hints:
        for name, term in lem.hints(k=k, **args):
            ex.oblige(st, "lemma", lem.name, "hint." + name, term)
    ex.oblige(st, "lemma", lem.name, "step", lem.concl(k=k, **args))
    return ex.obligations


def run(qualnames, timeout_ms=20000, jobs=None, dump=False):
    """VC generation is done in this process (sub-second per function); all obligations of all functions are
    then discharged by a pool of forked workers (they inherit the z3 terms)."""
    global _ALL
    jobs = jobs or 16
    results = []
    _ALL = []
    index = []
    # metric / axiom items do their (solver-assisted) generation and their few obligations in one worker each
    self_contained = [q for q in qualnames if q.startswith(("metric:", "metricreads:", "axioms:", "lean:"))]
    done = {}
    if self_contained:
        ctx0 = mp.get_context("fork")
        with ctx0.Pool(min(jobs, len(self_contained))) as pool:
            for r in pool.map(_verify_one, [(q, timeout_ms or 20000, dump) for q in self_contained], chunksize=1):
                r.pop("_obs", None)
                done[r["function"]] = r
    for q in qualnames:
        if q in done:
            results.append(done[q])
            continue
        r = _verify_one((q, None, dump))
        obs = r.pop("_obs", [])
        if os.environ.get("PYVC_ONLY"):       # debugging aid: discharge only the obligations whose name matches
            obs = [ob for ob in obs if os.environ["PYVC_ONLY"] in ob.name]
        for ob in obs:
            index.append((r, ob))
            _ALL.append(ob)
        results.append(r)
    if _ALL:
        ctx = mp.get_context("fork")
        with ctx.Pool(min(jobs, len(_ALL))) as pool:
            solved = pool.map(_solve_idx, [(i, timeout_ms) for i in range(len(_ALL))], chunksize=1)
        # second chance for obligations that ran out of time while all cores were busy: fewer of them run at once now
        retry = [i for (i, status, *_rest) in solved if status == "unknown"]
        if retry and timeout_ms:
            with ctx.Pool(min(jobs, len(retry))) as pool:
                again = pool.map(_solve_idx, [(i, timeout_ms * 3) for i in retry], chunksize=1)
            by = {r[0]: r for r in again}
            solved = [by.get(r[0], r) if r[1] == "unknown" else r for r in solved]
        for (i, status, seconds, solver, reason, model) in solved:
            r, ob = index[i]
            rec = {"name": ob.name, "kind": ob.kind, "status": status, "seconds": round(seconds, 4),
                   "line": ob.lineno, "text": ob.text, "solver": solver}
            if dump and solver != "static":
                import hashlib
                d = os.path.join(os.path.dirname(os.path.dirname(os.path.abspath(__file__))), "scratch", "smt")
                os.makedirs(d, exist_ok=True)
                pth = os.path.join(d, hashlib.sha1(ob.name.encode()).hexdigest()[:16] + ".smt2")
                with open(pth, "w") as fh:
                    fh.write(ob.smt2())
                rec["smt2"] = pth
            if status != "unsat":
                rec["reason"] = reason
                if model:
                    rec["model"] = model
            r["obligations"].append(rec)
    for r in results:
        r["seconds"] = round(r["seconds"] + sum(o["seconds"] for o in r["obligations"]), 3)
    return results


if __name__ == "__main__":
    load_specs()
    names = sys.argv[1:] or (sorted(q for q in REGISTRY if not REGISTRY[q].trusted) + ["lemma:" + k for k in sorted(LEMMAS)])
    res = run(names, jobs=int(os.environ.get("JOBS", "16")))
    bad = 0
    for r in res:
        n = len(r["obligations"])
        ok = sum(1 for o in r["obligations"] if o["status"] == "unsat")
        print("%-50s %3d/%3d  %.2fs %s" % (r["function"], ok, n, r["seconds"], (r["error"][0] + ": " + r["error"][1][-700:]) if r["error"] else ""))
        if r["error"]:
            bad += 1
        for o in r["obligations"]:
            if o["status"] != "unsat":
                bad += 1
                print("    %-8s %s  L%s  %s  (%.2fs) %s" % (o["status"], o["name"], o["line"], o["text"], o["seconds"], o.get("reason", "")))
    sys.exit(1 if bad else 0)
