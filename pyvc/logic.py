"""Polymorphic logical helpers: one spec source, two interpreters.

Every contract clause in /verif/specs is an ordinary Python expression built from these
helpers.  In symbolic mode (MODE.kind == 'sym') they build z3 terms; in concrete mode
('conc') they evaluate on real Python/opfython objects; in bounded mode ('bounded')
quantifiers are expanded over MODE.universe so that the solver can produce counter-models.
"""
import itertools
import z3

_fresh = itertools.count()

STR_CODES = {}


def strcode(s):
    """strings are modelled as interned integer codes (finite enums: policies, extensions)"""
    return STR_CODES.setdefault(s, len(STR_CODES))


class _Mode:
    kind = "sym"          # 'sym' | 'conc' | 'bounded'
    universe = range(-1, 5)


MODE = _Mode()


def is_z3(x):
    return isinstance(x, z3.ExprRef)


def to_z3_bool(x):
    if isinstance(x, bool):
        return z3.BoolVal(x)
    return x


def fresh_int(prefix="k"):
    return z3.Int("%s!%d" % (prefix, next(_fresh)))


def fresh_const(prefix, sort):
    return z3.Const("%s!%d" % (prefix, next(_fresh)), sort)


def _anysym(xs):
    return any(is_z3(x) for x in xs)


def conj(*xs):
    xs = [x for x in _flatten(xs)]
    if MODE.kind == "conc" or not _anysym(xs):
        return all(bool(x) for x in xs)
    xs = [to_z3_bool(x) for x in xs if x is not True]
    if any(x is False for x in xs):
        return False
    return z3.And(*xs) if len(xs) != 1 else xs[0]


def disj(*xs):
    xs = [x for x in _flatten(xs)]
    if MODE.kind == "conc" or not _anysym(xs):
        return any(bool(x) for x in xs)
    if any(x is True for x in xs):
        return True
    xs = [to_z3_bool(x) for x in xs if x is not False]
    return z3.Or(*xs) if len(xs) != 1 else xs[0]


def _flatten(xs):
    for x in xs:
        if isinstance(x, (list, tuple)):
            for y in _flatten(x):
                yield y
        else:
            yield x


def neg(x):
    if is_z3(x):
        return z3.Not(x)
    return not x


def implies(a, b):
    if is_z3(a) or is_z3(b):
        if a is True:
            return b
        if a is False:
            return True
        if b is True:
            return True
        return z3.Implies(to_z3_bool(a), to_z3_bool(b))
    return (not a) or bool(b)


def iff(a, b):
    if is_z3(a) or is_z3(b):
        return to_z3_bool(a) == to_z3_bool(b)
    return bool(a) == bool(b)


def ite(c, a, b):
    if is_z3(c):
        a, b = coerce_pair(a, b)
        return z3.If(c, a, b)
    return a if c else b


def coerce_pair(a, b):
    """Bring two numeric values to a common z3 sort."""
    if not is_z3(a) and not is_z3(b):
        if isinstance(a, float) or isinstance(b, float):
            return realval(a), realval(b)
        if isinstance(a, bool) and isinstance(b, bool):
            return z3.BoolVal(a), z3.BoolVal(b)
        return z3.IntVal(a), z3.IntVal(b)
    if is_z3(a) and not is_z3(b):
        if isinstance(b, float) and z3.is_int(a):
            return z3.ToReal(a), realval(b)
        return a, lift(b, a.sort())
    if is_z3(b) and not is_z3(a):
        if isinstance(a, float) and z3.is_int(b):
            return realval(a), z3.ToReal(b)
        return lift(a, b.sort()), b
    if a.sort() == b.sort():
        return a, b
    if z3.is_int(a) and z3.is_real(b):
        return z3.ToReal(a), b
    if z3.is_real(a) and z3.is_int(b):
        return a, z3.ToReal(b)
    raise TypeError("cannot coerce %s and %s" % (a.sort(), b.sort()))


def realval(x):
    if is_z3(x):
        return z3.ToReal(x) if z3.is_int(x) else x
    if isinstance(x, bool):
        x = int(x)
    if isinstance(x, int):
        return z3.RealVal(x)
    # exact binary value of the double
    import fractions
    fr = fractions.Fraction(x)
    return z3.RealVal(fr.numerator) / z3.RealVal(fr.denominator) if fr.denominator != 1 else z3.RealVal(fr.numerator)


def lift(x, sort):
    if is_z3(x):
        if x.sort() == sort:
            return x
        if sort == z3.RealSort() and z3.is_int(x):
            return z3.ToReal(x)
        raise TypeError("cannot lift %s to %s" % (x.sort(), sort))
    if sort == z3.RealSort():
        return realval(x)
    if sort == z3.IntSort():
        if isinstance(x, str):
            return z3.IntVal(strcode(x))
        if isinstance(x, float):
            if x != int(x):
                raise TypeError("non-integral float into Int")
            x = int(x)
        return z3.IntVal(int(x))
    if sort == z3.BoolSort():
        return z3.BoolVal(bool(x))
    raise TypeError("cannot lift %r to %s" % (x, sort))


def eq(a, b):
    if is_z3(a) or is_z3(b):
        a, b = coerce_pair(a, b)
        return a == b
    if hasattr(a, "shape") or hasattr(b, "shape"):
        import numpy as np
        return bool(np.array_equal(a, b))
    return a == b


def ne(a, b):
    if is_z3(a) or is_z3(b):
        a, b = coerce_pair(a, b)
        return a != b
    if hasattr(a, "shape") or hasattr(b, "shape"):
        import numpy as np
        return not bool(np.array_equal(a, b))
    return a != b


def lt(a, b):
    if is_z3(a) or is_z3(b):
        a, b = coerce_pair(a, b)
    return a < b


def le(a, b):
    if is_z3(a) or is_z3(b):
        a, b = coerce_pair(a, b)
    return a <= b


def gt(a, b):
    return lt(b, a)


def ge(a, b):
    return le(b, a)


def between(lo, x, hi):
    """lo <= x < hi"""
    return conj(le(lo, x), lt(x, hi))


def vmax(a, b):
    if is_z3(a) or is_z3(b):
        a, b = coerce_pair(a, b)
        return z3.If(a >= b, a, b)
    return a if a >= b else b


def vmin(a, b):
    if is_z3(a) or is_z3(b):
        a, b = coerce_pair(a, b)
        return z3.If(a <= b, a, b)
    return a if a <= b else b


def length(x):
    if hasattr(x, "length"):
        return x.length
    return len(x)


# --------------------------------------------------------------------------------------
# quantifiers


def _collect_patterns(body, bound):
    """Candidate E-matching patterns: array reads / uninterpreted applications that mention a
    bound variable and contain no interpreted arithmetic on it."""
    bound_ids = {b.get_id() for b in bound}
    cands = {}
    seen = set()

    def mentions(t):
        if t.get_id() in bound_ids:
            return frozenset([t.get_id()])
        r = frozenset()
        for ch in t.children():
            r |= mentions(ch)
        return r

    def clean(t):
        """no arithmetic/ite/logic inside (only selects, UF applications, variables, constants)"""
        if t.get_id() in bound_ids:
            return True
        if z3.is_const(t):
            return True
        k = t.decl().kind()
        if k in (z3.Z3_OP_SELECT, z3.Z3_OP_UNINTERPRETED):
            return all(clean(c) for c in t.children())
        if k == z3.Z3_OP_TO_REAL:
            return False
        return False

    def walk(t):
        if t.get_id() in seen:
            return
        seen.add(t.get_id())
        if z3.is_quantifier(t):
            return
        if z3.is_app(t):
            k = t.decl().kind()
            if k in (z3.Z3_OP_SELECT, z3.Z3_OP_UNINTERPRETED) and t.num_args() > 0:
                m = mentions(t)
                if m and clean(t):
                    cands[t.get_id()] = (t, m)
            for ch in t.children():
                walk(ch)

    walk(body)
    # drop candidates that are strict subterms of nothing? keep all minimal ones
    items = list(cands.values())
    full = [t for (t, m) in items if m == frozenset(bound_ids)]
    pats = []
    if full:
        # keep the smallest few full-coverage terms as alternative patterns
        full.sort(key=lambda t: len(t.sexpr()))
        pats = full[:14]
        if len(bound_ids) >= 2:
            # plus one multi-pattern of single-variable reads (full-coverage terms such as W(b, q) usually do
            # not exist as ground terms before the clause has been instantiated once)
            per = []
            for bid in bound_ids:
                own = [t for (t, m) in items if m == frozenset([bid])]
                if not own:
                    per = None
                    break
                own.sort(key=lambda t: len(t.sexpr()))
                per.append(own[0])
            if per:
                pats.append(z3.MultiPattern(*per))
        return pats
    # multi-pattern: greedy cover
    need = set(bound_ids)
    chosen = []
    items.sort(key=lambda tm: (-len(tm[1]), len(tm[0].sexpr())))
    for t, m in items:
        if m & need:
            chosen.append(t)
            need -= m
        if not need:
            break
    if need:
        return []
    return [z3.MultiPattern(*chosen)] if len(chosen) > 1 else chosen


_DEPTH = [0]


def _bound(prefix, n):
    """bound variables are named by nesting depth (not by a global counter) so that the same clause built twice
    is the same z3 term; every quantifier closes over its own variables before the term is used elsewhere, and
    nested quantifiers use a deeper name, so no capture can occur"""
    return [z3.Int("%s@%d.%d" % (prefix, _DEPTH[0], i)) for i in range(n)]


def multipat(*terms):
    """a multi-pattern, or None when some term cannot serve as a trigger in the current state (e.g. a field that is
    still a literal there); `forall` drops the None entries"""
    ts = []
    for t in terms:
        t = getattr(t, "z3", t)
        if not (is_z3(t) and z3.is_app(t) and t.num_args() > 0):
            return None
        ts.append(t)
    try:
        return z3.MultiPattern(*ts) if len(ts) > 1 else ts[0]
    except z3.Z3Exception:
        return None


def _usable_pattern(p, ks):
    if p is None:
        return False
    if isinstance(p, z3.PatternRef):
        return True
    return is_z3(p) and z3.is_app(p) and p.num_args() > 0 and not z3.is_const(p)


def forall(lo, hi, fn, pats=None, extra_pats=None):
    """forall k in [lo, hi): fn(k)   (fn may take several arguments: all range over [lo, hi))"""
    import inspect
    n = len(inspect.signature(fn).parameters)
    if MODE.kind == "conc":
        rng = range(int(lo), int(hi))
        return all(bool(fn(*ks)) for ks in itertools.product(rng, repeat=n))
    if MODE.kind == "bounded":
        out = []
        for ks in itertools.product(MODE.universe, repeat=n):
            g = conj(*[between(lo, k, hi) for k in ks])
            if g is False:
                continue
            out.append(implies(g, fn(*ks)))
        return conj(*out)
    ks = _bound("q", n)
    _DEPTH[0] += 1
    try:
        body = to_z3_bool(fn(*ks))
    finally:
        _DEPTH[0] -= 1
    guard = to_z3_bool(conj(*[between(lo, k, hi) for k in ks]))
    full = z3.Implies(guard, body)
    if pats is not None:
        p = pats(*ks)
        p = p if isinstance(p, (list, tuple)) else [p]
        p = [x for x in p if _usable_pattern(x, ks)]
        if p:
            return z3.ForAll(ks, full, patterns=list(p))
    p = _collect_patterns(body, ks)
    if extra_pats is not None and p:
        e = extra_pats(*ks)
        p = list(p) + list(e if isinstance(e, (list, tuple)) else [e])
    if p:
        return z3.ForAll(ks, full, patterns=p)
    return z3.ForAll(ks, full)


def exists(lo, hi, fn, pats=None):
    import inspect
    n = len(inspect.signature(fn).parameters)
    if MODE.kind == "conc":
        rng = range(int(lo), int(hi))
        return any(bool(fn(*ks)) for ks in itertools.product(rng, repeat=n))
    if MODE.kind == "bounded":
        out = []
        for ks in itertools.product(MODE.universe, repeat=n):
            g = conj(*[between(lo, k, hi) for k in ks])
            if g is False:
                continue
            out.append(conj(g, fn(*ks)))
        return disj(*out)
    ks = _bound("e", n)
    _DEPTH[0] += 1
    try:
        body = to_z3_bool(fn(*ks))
    finally:
        _DEPTH[0] -= 1
    guard = to_z3_bool(conj(*[between(lo, k, hi) for k in ks]))
    if pats is not None:
        # triggers for the universal that this existential becomes when it is negated (a goal) or sits in an antecedent
        p = pats(*ks)
        p = [x for x in (p if isinstance(p, (list, tuple)) else [p]) if _usable_pattern(x, ks)]
        if p:
            return z3.Exists(ks, z3.And(guard, body), patterns=p)
    return z3.Exists(ks, z3.And(guard, body))


def idiv(a, b):
    """floor division of integers (b > 0)"""
    if is_z3(a) or is_z3(b):
        a, b = coerce_pair(a, b)
        return a / b
    return a // b


def same_list(a, b):
    """the two lists are equal as values (array-level equality in the symbolic reading: gives congruence)"""
    if hasattr(a, "arr") and hasattr(b, "arr"):
        return z3.And(a.arr == b.arr, eq(a.length, b.length))
    return list(a) == list(b)
