"""Run-time twin (DESIGN 1.7): the sidecar contracts evaluated on the REAL objects while the real code runs.

Used (a) to replay / search for failing inputs when an obligation is not discharged, (b) as the bounded
stand-in for clauses that are not proved, (c) as a sanity check of the specifications themselves
(a contract that fires on the unchanged tree is either too strict or a genuine defect), and (d) as
vacuity evidence (hit counters per clause).  Contracts are wrapped around the real methods inside the
checker process only; nothing in /repo is edited.
"""
import copy
import functools
import inspect
import types

from . import logic as L
from .contracts import REGISTRY


class ContractViolation(Exception):
    def __init__(self, qualname, clause, detail):
        super().__init__("%s: clause `%s` violated: %s" % (qualname, clause, detail))
        self.qualname, self.clause, self.detail = qualname, clause, detail


class Twin:
    def __init__(self):
        self.hits = {}
        self.pre_unmet = {}
        self.patched = []
        self.failures = []
        self.raise_on_fail = True
        self.depth = 0

    def _ns(self, fn, args, kwargs):
        sig = inspect.signature(fn)
        ba = sig.bind(*args, **kwargs)
        ba.apply_defaults()
        return dict(ba.arguments)

    def snapshot(self, binding, c):
        snap = {}
        for k, v in binding.items():
            try:
                snap[k] = copy.deepcopy(v)
            except Exception:
                snap[k] = v
        return snap

    def wrap(self, qualname, fn, snapshot=None):
        c = REGISTRY[qualname]
        twin = self

        @functools.wraps(fn)
        def wrapper(*args, **kwargs):
            binding = twin._ns(fn, args, kwargs)
            prev = L.MODE.kind
            L.MODE.kind = "conc"
            try:
                v = types.SimpleNamespace(**binding)
                try:
                    pre = c.requires(v)
                    pre_ok = all(bool(it[1]) for it in pre)
                except Exception as ex:   # precondition not even evaluable (shape broken)
                    pre_ok = False
                if not pre_ok:
                    twin.pre_unmet[qualname] = twin.pre_unmet.get(qualname, 0) + 1
                    L.MODE.kind = prev
                    return fn(*args, **kwargs)
                old = types.SimpleNamespace(**(snapshot or twin.snapshot)(binding, c))
            finally:
                L.MODE.kind = prev
            result = fn(*args, **kwargs)
            L.MODE.kind = "conc"
            try:
                try:
                    posts = c.ensures(v, old, result)
                except Exception as ex:
                    import traceback
                    posts = [("evaluable(%s)" % traceback.format_exc()[-300:], False)]
                for it in posts:
                    name, t = it[0], it[1]
                    key = qualname + "/post/" + name
                    twin.hits[key] = twin.hits.get(key, 0) + 1
                    if not bool(t):
                        f = ContractViolation(qualname, name, "post-state does not satisfy the clause")
                        twin.failures.append(f)
                        if twin.raise_on_fail:
                            raise f
            finally:
                L.MODE.kind = prev
            return result
        wrapper.__wrapped_by_twin__ = True
        return wrapper

    def patch_method(self, cls, name, qualname, snapshot=None):
        orig = cls.__dict__[name]
        setattr(cls, name, self.wrap(qualname, orig, snapshot))
        self.patched.append((cls, name, orig))

    def unpatch(self):
        for cls, name, orig in reversed(self.patched):
            setattr(cls, name, orig)
        self.patched = []
