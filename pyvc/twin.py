"""Run-time twin (DESIGN 1.7): the sidecar contracts evaluated on the REAL objects while the real code runs.

Used (a) to replay / search for failing inputs when an obligation is not discharged, (b) as the bounded
stand-in for clauses that are not proved, (c) as a sanity check of the specifications themselves
(a contract that fires on the unchanged tree is either too strict or a genuine defect), and (d) as
vacuity evidence (hit counters per clause).  Contracts are wrapped around the real methods inside the
checker process only; nothing in /repo is edited.
"""
import copy
import functools
import inspect
import types

from . import logic as L
from .contracts import REGISTRY


class ContractViolation(Exception):
    def __init__(self, qualname, clause, detail):
        super().__init__("%s: clause `%s` violated: %s" % (qualname, clause, detail))
        self.qualname, self.clause, self.detail = qualname, clause, detail


class ConcOpt:
    """an optional argument (None or a sequence) as the clause language sees it"""

    def __init__(self, value):
        self.present = value is not None
        self.value = _total(value) if value is not None else TotalSeq([])

    def __getitem__(self, i):
        # clauses are evaluated eagerly (`implies(present, ...)` computes both sides): an absent value reads as 0
        return self.value[i]

    def __len__(self):
        return len(self.value)


class TotalSeq:
    """a caller-supplied sequence as the clause language sees it: a total map (the symbolic semantics reads arrays as
    total maps too).  Clauses are evaluated eagerly, so `implies(x < n, a[x] == ..)` touches a[x] for every x of the
    quantifier's range; an out-of-range read yields a zero element instead of raising."""

    def __init__(self, raw):
        import numpy as np
        self.raw = raw
        self._np = np

    def __len__(self):
        return len(self.raw)

    def __iter__(self):
        return iter(self.raw)

    def __array__(self, dtype=None, copy=None):
        a = self._np.asarray(self.raw)
        return a.astype(dtype) if dtype is not None else a

    @property
    def shape(self):
        return self._np.asarray(self.raw).shape

    def __getitem__(self, i):
        try:
            ii = int(i)
        except Exception:
            return self.raw[i]
        n = len(self.raw)
        if 0 <= ii < n:
            return self.raw[ii]
        if n and hasattr(self.raw[0], "__len__"):
            return self._np.zeros_like(self._np.asarray(self.raw[0]))
        return 0

    def __eq__(self, other):
        return bool(self._np.array_equal(self._np.asarray(self.raw), self._np.asarray(getattr(other, "raw", other))))

    __hash__ = object.__hash__


def _total(v):
    import numpy as np
    if isinstance(v, (list, tuple, np.ndarray)) and getattr(v, "ndim", 1) >= 1:
        return TotalSeq(v)
    return v


class GhostAny:
    """a logical witness of a contract (v.ghost(..)) has no run-time value: every atom that mentions it evaluates to
    True, so such clauses are simply not checked at run time (they are proof-only) while the others are"""

    def __getitem__(self, i):
        return self

    def __call__(self, *a, **k):
        return self

    def __getattr__(self, name):
        if name.startswith("__"):
            raise AttributeError(name)
        return self

    def __bool__(self):
        return True

    def __len__(self):
        return 0

    def __index__(self):
        return 0

    def _t(self, other):
        return True

    __eq__ = __ne__ = __lt__ = __le__ = __gt__ = __ge__ = _t

    def _s(self, other=None):
        return self

    __add__ = __radd__ = __sub__ = __rsub__ = __mul__ = __rmul__ = __truediv__ = __rtruediv__ = __neg__ = _s
    __hash__ = object.__hash__


class Twin:
    def __init__(self):
        self.hits = {}
        self.pre_unmet = {}
        self.patched = []
        self.failures = []
        self.raise_on_fail = True
        self.depth = 0

    def _ns(self, fn, args, kwargs, contract=None):
        sig = inspect.signature(fn)
        ba = sig.bind(*args, **kwargs)
        ba.apply_defaults()
        d = dict(ba.arguments)
        if contract is not None:
            for k, ty in contract.params.items():
                if isinstance(ty, str) and ty.startswith("opt") and k in d:
                    d[k] = ConcOpt(d[k])      # the clauses read `.present` / `.value` / `[i]` of optional parameters
                elif isinstance(ty, str) and ty.startswith("list") and k in d:
                    d[k] = _total(d[k])
        return d

    def snapshot(self, binding, c):
        snap = {}
        for k, v in binding.items():
            try:
                snap[k] = copy.deepcopy(v)
            except Exception:
                snap[k] = v
        return snap

    def wrap(self, qualname, fn, snapshot=None):
        c = REGISTRY[qualname]
        twin = self

        @functools.wraps(fn)
        def wrapper(*args, **kwargs):
            binding = twin._ns(fn, args, kwargs, c)
            prev = L.MODE.kind
            L.MODE.kind = "conc"
            try:
                v = types.SimpleNamespace(ghost=lambda name, ty=None: GhostAny(), ghostfn=lambda *a, **k: GhostAny(),
                                          **binding)
                try:
                    pre = c.requires(v)
                    pre_ok = all(bool(it[1]) for it in pre)
                except Exception as ex:   # precondition not even evaluable (shape broken)
                    pre_ok = False
                if not pre_ok:
                    twin.pre_unmet[qualname] = twin.pre_unmet.get(qualname, 0) + 1
                    L.MODE.kind = prev
                    return fn(*args, **kwargs)
                old = types.SimpleNamespace(**(snapshot or twin.snapshot)(binding, c))
            finally:
                L.MODE.kind = prev
            result = fn(*args, **kwargs)
            L.MODE.kind = "conc"
            try:
                try:
                    posts = c.ensures(v, old, result)
                except Exception as ex:
                    import traceback
                    posts = [("evaluable(%s)" % traceback.format_exc()[-300:], False)]
                for it in posts:
                    name, t = it[0], it[1]
                    key = qualname + "/post/" + name
                    twin.hits[key] = twin.hits.get(key, 0) + 1
                    if not bool(t):
                        f = ContractViolation(qualname, name, "post-state does not satisfy the clause")
                        twin.failures.append(f)
                        if twin.raise_on_fail:
                            raise f
            finally:
                L.MODE.kind = prev
            return result
        wrapper.__wrapped_by_twin__ = True
        return wrapper

    def patch_method(self, cls, name, qualname, snapshot=None):
        orig = cls.__dict__[name]
        setattr(cls, name, self.wrap(qualname, orig, snapshot))
        self.patched.append((cls, name, orig))

    def unpatch(self):
        for cls, name, orig in reversed(self.patched):
            setattr(cls, name, orig)
        self.patched = []
