"""./check <property> [--tier quick|thorough]   |   ./check --replay <file>

Exit 0 held (KNOWN-FINDING lines allowed) · 1 VIOLATION property=<id> replay=<path> · 2 undecided · 3 checker error.
"""
import argparse
import hashlib
import importlib
import json
import os
import subprocess
import sys
import time
import traceback

VERIF = os.path.dirname(os.path.dirname(os.path.abspath(__file__)))
sys.path.insert(0, VERIF)
OUT = os.environ.get("VERIF_OUT", VERIF)      # where evidence/ and replays/ are written (self-tests redirect it)

from pyvc import driver  # noqa: E402
from pyvc.source import REPO  # noqa: E402


def sha_file(path):
    try:
        with open(path, "rb") as f:
            return hashlib.sha256(f.read()).hexdigest()[:16]
    except OSError:
        return "missing"


def load_json(path, default):
    try:
        with open(path) as f:
            return json.load(f)
    except (OSError, ValueError):
        return default


def second_opinion(smt_path, which, timeout_s=30):
    if which == "z3old":
        cmd = ["/usr/bin/z3", "-T:%d" % timeout_s, smt_path]
    else:
        cmd = ["/usr/bin/cvc5", "--tlimit=%d" % (timeout_s * 1000), smt_path]
    try:
        r = subprocess.run(cmd, capture_output=True, text=True, timeout=timeout_s + 10)
        out = r.stdout.strip().split("\n")[0] if r.stdout.strip() else "error"
        if "Parse Error" in (r.stdout + r.stderr) and "expected a value" in (r.stdout + r.stderr):
            out = "unsupported"      # cvc5 1.0 rejects constant arrays of a symbolic value ((as const ..) t)
    except subprocess.TimeoutExpired:
        out = "timeout"
    return out


def main(argv=None):
    ap = argparse.ArgumentParser()
    ap.add_argument("prop", nargs="?")
    ap.add_argument("--tier", default=os.environ.get("VERIF_TIER", "quick"))
    ap.add_argument("--replay")
    ap.add_argument("--rebaseline", action="store_true")
    ap.add_argument("--no-bounded", action="store_true")
    args = ap.parse_args(argv)
    if args.replay:
        return do_replay(args.replay)
    from specs.properties import PROPERTIES
    if args.prop not in PROPERTIES:
        print("unknown or unclaimed property %s" % args.prop)
        return 3
    try:
        return run_check(args.prop, PROPERTIES[args.prop], args)
    except Exception:
        traceback.print_exc()
        print("CHECKER-ERROR property=%s (exit 3; this is not a verdict about the code)" % args.prop)
        return 3


TIE_POLICY_PROPS = {"C09"}


def run_check(prop, P, args):
    t0 = time.time()
    tier = args.tier if args.tier in ("quick", "thorough") else "quick"
    seed = int(os.environ.get("VERIF_SEED", "0") or 0)
    driver.load_specs()
    names = list(P.get("functions", [])) + ["lemma:" + n for n in P.get("lemmas", [])]
    timeout_ms = 20000 if tier == "quick" else 60000
    results = driver.run(names, timeout_ms=timeout_ms, jobs=16, dump=(tier == "thorough")) if names else []
    base_all = load_json(os.path.join(VERIF, "baseline_obligations.json"), {})
    base = base_all.get(prop, {"discharged": [], "files": {}, "hashes": {}})
    files_now = {f: sha_file(os.path.join(REPO, f)) for f in P.get("files", [])}
    changed_files = [f for f in files_now if base["files"].get(f) != files_now[f]]
    known = load_json(os.path.join(VERIF, "known_findings.json"), {"open": [], "fixed": []})
    known_open = [k for k in known.get("open", []) if k.get("property") == prop]

    obligations, discharged, failed, errors = 0, 0, [], []
    solver_seconds = 0.0
    by_solver = {}
    samples = []
    fn_summary = []
    for r in results:
        if r["error"]:
            errors.append((r["function"], r["error"]))
        n_ok = 0
        for o in r["obligations"]:
            obligations += 1
            solver_seconds += o["seconds"]
            if o["status"] == "unsat":
                discharged += 1
                n_ok += 1
                by_solver[o["solver"]] = by_solver.get(o["solver"], 0) + 1
            else:
                o["function"] = r["function"]
                o["hash_changed"] = base.get("hashes", {}).get(r["function"]) != r.get("hash")
                o["no_fingerprint"] = r.get("hash") is None
                # ghost anchors: the same statement text occurs a different number of times than on the baseline tree
                ba = base.get("anchors", {}).get(r["function"])
                o["anchor_drift"] = ba is not None and r.get("anchor_counts") is not None and ba != r.get("anchor_counts")
                o["item_kind"] = r.get("kind")
                failed.append(o)
        fn_summary.append({"function": r["function"], "obligations": len(r["obligations"]), "discharged": n_ok,
                           "seconds": r["seconds"], "ast_hash": r.get("hash")})
        for o in r["obligations"][:1]:
            if len(samples) < 6:
                samples.append({"obligation": o["name"], "status": o["status"], "line": o["line"], "source": o["text"]})

    # second and third solver on every query (thorough)
    disagreements = []
    second = {}
    if tier == "thorough":
        from concurrent.futures import ThreadPoolExecutor
        tasks = [(o, which) for r in results for o in r["obligations"] if o.get("smt2") for which in ("z3old", "cvc5")]
        budget = int(os.environ.get("VERIF_SECOND_TIMEOUT", "10"))
        with ThreadPoolExecutor(max_workers=16) as pool:
            answers = list(pool.map(lambda t: second_opinion(t[0]["smt2"], t[1], budget), tasks))
        for (o, which), ans in zip(tasks, answers):
            ans = ans if ans in ("sat", "unsat", "unknown", "timeout", "unsupported") else "error"
            second.setdefault(which, {}).setdefault(ans, 0)
            second[which][ans] += 1
            # (a cover obligation is "discharged" when its hypotheses are satisfiable: there the other answer disagrees)
            bad = "unsat" if o.get("kind") == "cover" else "sat"
            if o["status"] == "unsat" and ans == bad:
                disagreements.append((o["name"], which))

    if args.rebaseline:
        if failed or errors:
            print("refusing to rebaseline: %d failed obligations, %d errors" % (len(failed), len(errors)))
            for o in failed:
                print("   ", o["status"], o["name"])
            for e in errors:
                print("   ", e[0], e[1][0], e[1][1][:300])
            return 3
        base_all[prop] = {"discharged": sorted(o["name"] for r in results for o in r["obligations"]),
                          "files": files_now, "hashes": {r["function"]: r.get("hash") for r in results},
                          "anchors": {r["function"]: r.get("anchor_counts") for r in results if r.get("anchor_counts") is not None}}
        with open(os.path.join(VERIF, "baseline_obligations.json"), "w") as f:
            json.dump(base_all, f, indent=1, sort_keys=True)
        print("baseline for %s: %d obligations" % (prop, obligations))
        return 0

    # ---- run-time channel on the real code (replay search / bounded stand-in / spec sanity)
    bstats, bfailure, berror = None, None, None
    if P.get("bounded") and not args.no_bounded:
        try:
            mod = importlib.import_module(P["bounded"])
            bstats, bfailure = mod.explore(tier, prop)
        except Exception:
            berror = traceback.format_exc()

    # ---- verdict
    lines = []
    exit_code = 0
    violations = 0
    os.makedirs(os.path.join(OUT, "replays"), exist_ok=True)

    def matches_known(kind, name, signature):
        for k in known_open:
            m = k.get("match", {})
            if m.get("kind") == kind and m.get("name") == name and (m.get("signature") in (None, signature)):
                return k
        return None

    crash = [e for e in errors if e[1][0] == "crash"]
    if crash or berror or disagreements:
        for fn, (k, msg) in crash:
            print("CHECKER-ERROR in %s:\n%s" % (fn, msg))
        if berror:
            print("CHECKER-ERROR in bounded harness:\n%s" % berror)
        for d in disagreements:
            print("CHECKER-ERROR solver disagreement on %s (%s answers the opposite)" % d)
        exit_code = 3

    known_hits = []
    unexplained = []
    for o in failed:
        k = matches_known("obligation", o["name"].split("[")[0], None)
        if k:
            known_hits.append(k)
        else:
            unexplained.append(o)
    if bfailure is not None:
        sig = bfailure.get("signature") or bfailure.get("observed", {}).get("error", "")[:60]
        k = matches_known("runtime", bfailure.get("kind"), bfailure.get("signature"))
        if k:
            known_hits.append(k)
            bfailure = None

    # findings reported by the run-time channel (e.g. a function that is known not to work at all): each must match an
    # open entry of known_findings.json (same property, kind, signature), otherwise it is a violation like any other
    new_findings = []
    for fnd in (bstats or {}).get("findings", []):
        k = matches_known("runtime", fnd.get("signature"), None)
        if k:
            known_hits.append(k)
        else:
            new_findings.append(fnd)
    if new_findings and bfailure is None:
        bfailure = {"kind": "finding", "observed": {"error": new_findings[0]["what"]}, "signature": new_findings[0]["signature"]}

    undecided = []
    fell_back = False
    if exit_code != 3:
        if bfailure is not None:
            # a concrete failing input on the real code: a violation, whatever the solver said
            path = os.path.join(OUT, "replays", "%s_%d.json" % (prop, int(time.time())))
            rec = {"property": prop, "failed_obligations": [
                {"name": o["name"], "status": o["status"], "reason": o.get("reason"), "line": o["line"],
                 "source": o["text"], "model": o.get("model")} for o in unexplained],
                "input": bfailure, "replay_cmd": "./check --replay %s" % path,
                "note": "counterexample found by running the REAL code under the sidecar contracts"}
            with open(path, "w") as f:
                json.dump(rec, f, indent=1)
            lines.append("VIOLATION property=%s replay=%s" % (prop, path))
            for o in unexplained[:8]:
                lines.append("  failed obligation: %s (%s) L%s `%s`" % (o["name"], o["status"], o["line"], o["text"]))
            lines.append("  failing input on the real code: %s" % json.dumps(bfailure.get("observed"))[:300])
            violations += 1
            exit_code = 1
        elif unexplained:
            # An obligation that was discharged on the baseline tree and is not any more counts as a violation when the
            # code it is generated from changed: always when the solver produced a model of the negated goal (`sat`);
            # for `unknown` only when the item's OWN fingerprint changed (its body or a body inlined into it) - an
            # `unknown` on an untouched item next to an edited one is a solver budget matter (undecided), and reporting
            # it would blame the wrong obligation.  Items without a fingerprint (static / effect tables, lemmas) are
            # decided by evaluation, never by a budget: there any change of the property's files counts.
            # Which failed obligations are evidence against the CODE (and not merely against the proof)?
            #   contract clauses  - postconditions, frame conditions, preconditions of callees, safety (index / division /
            #                       None / unreachable raise), definite static breaches: a change that makes one of these
            #                       fail has changed the behaviour the contract describes;
            #   iteration clauses - preservation of a loop invariant, and the entry of a loop nested inside another loop of
            #                       the function: they fail in the middle of an iteration of a loop whose skeleton (number,
            #                       kind, variable of the loops, all ghost anchors) still matches the contract - otherwise
            #                       the item is spec drift and produces no obligations at all -, so the body computes
            #                       something the invariant's abstraction excludes: counted like a contract clause;
            #   proof-internal    - the FIRST entry of a top-level loop, hints, lemma hypotheses: set-up code that moved
            #                       before / after a loop, or a proof step that no longer applies (a harmless restructuring
            #                       does that too) - no verdict about the property: undecided, the run-time channel decides;
            #   no verdict        - shape obligations that do not recognise the code (status unknown by construction).
            INTERNAL = ("entry", "hint", "lemma", "cover")

            def regressed(o):
                if o.get("item_kind") == "lemma" or o.get("anchor_drift"):
                    return False        # (anchor drift: ghost updates were lost with a rewritten statement - no verdict)
                clause = o["name"].split("/")[-1].split("#")[0].split("[")[0]
                if clause.startswith(("tie_", "snap_tie_")) and prop not in TIE_POLICY_PROPS:
                    # a clause that pins down HOW ties are broken (needed for "the answer is a function of the sample",
                    # C09); properties that allow any tie-breaking get no verdict from it: the run-time channel decides
                    return False
                if o.get("kind") in INTERNAL and o.get("item_kind") not in ("axioms", "metric"):
                    return False        # (the `lemma` obligations of metric items are statements about the code's formula)
                if o["hash_changed"]:
                    return True
                if not changed_files:
                    return False
                return o["status"] == "sat" or (o.get("no_fingerprint") and o["status"] != "unknown")
            real = [o for o in unexplained if regressed(o) and o["name"] in set(base.get("discharged", []))]
            new_names = [o for o in unexplained if o["name"] not in set(base.get("discharged", [])) and regressed(o)]
            if real or new_names:
                path = os.path.join(OUT, "replays", "%s_%d.json" % (prop, int(time.time())))
                rec = {"property": prop, "failed_obligations": [
                    {"name": o["name"], "status": o["status"], "reason": o.get("reason"), "line": o["line"],
                     "source": o["text"], "model": o.get("model"), "function": o["function"]} for o in unexplained],
                    "changed_files": changed_files,
                    "note": "obligation(s) discharged on the baseline tree are no longer discharged after a change of the "
                            "function body; the bounded search on the real code found no failing input within its scope",
                    "bounded_scope": (bstats or {}).get("rule")}
                with open(path, "w") as f:
                    json.dump(rec, f, indent=1)
                lines.append("VIOLATION property=%s replay=%s no-failing-input-found" % (prop, path))
                for o in unexplained[:8]:
                    lines.append("  failed obligation: %s (%s) L%s `%s`" % (o["name"], o["status"], o["line"], o["text"]))
                violations += 1
                exit_code = 1
            else:
                undecided = unexplained
                exit_code = 2
        soft = [e for e in errors if e[1][0] in ("unsupported", "drift")]
        if soft and exit_code == 0:
            exit_code = 2
        for fn, (k, msg) in soft:
            lines.append("UNDECIDED %s: %s: %s" % (fn, k, msg[:300]))
        for o in undecided:
            lines.append("UNDECIDED obligation %s (%s %s): %s" % (
                o["name"], o["status"], o.get("reason", ""),
                "a statement the contract anchors ghost code on occurs a different number of times than on the baseline "
                "tree - ghost updates were lost with a rewritten statement (spec drift)" if o.get("anchor_drift") else
                "a proof-internal obligation (invariant / hint) - the proof as written does not cover this code"
                if o.get("kind") in ("entry", "hint", "lemma") else
                "no verdict (unchanged item, solver budget or unrecognised shape)"))
        if exit_code == 2 and bstats is not None and bfailure is None and not berror:
            # the deductive part could not decide (unsupported syntax / spec anchor drift / solver budget) and found no
            # refutation; the run-time contracts on the real code held on everything explored: report that, at the level
            # actually reached (the evidence says so), instead of failing the run
            lines.append("FALLBACK: deductive part undecided for the items above; verdict rests on the bounded run-time "
                         "channel only for this run (evidence level downgraded)")
            exit_code = 0
            fell_back = True
    for k in known_hits:
        lines.append("KNOWN-FINDING: property=%s %s" % (prop, k.get("what", k.get("id"))))
    if obligations == 0 and names and len(errors) < len(names):
        # vacuity guard: items were processed without any error and still produced nothing (when EVERY item is
        # undecided - e.g. a helper all of them inline became unsupported - zero obligations is the expected outcome
        # and the fallback above has already said what the verdict rests on)
        lines.append("CHECKER-ERROR zero obligations generated")
        exit_code = 3

    wall = time.time() - t0
    level = P["level"]
    cov = {
        "obligations": obligations,
        "discharged": discharged,
        "checker_cmd": "./check %s --tier %s   (pyvc AST->VC generator over %s, z3 %s python API%s)" % (
            prop, tier, REPO, driver.z3.get_version_string(),
            "; every query re-run by /usr/bin/z3 4.8.12 and cvc5 1.0.3" if tier == "thorough" else ""),
        "trusted_base": P.get("trusted", []),
        "functions_under_contract": fn_summary,
        "discharged_by_backend": by_solver,
        "second_opinions": second,
        "solver_seconds": round(solver_seconds, 2),
        "samples": samples,
        "source_tree": REPO,
        "changed_files_vs_baseline": changed_files,
        "not_discharged": [{"name": o["name"], "status": o["status"]} for o in failed],
        "engine_errors": [{"function": e[0], "kind": e[1][0], "message": e[1][1][:400]} for e in errors],
        "explanation": P.get("explanation", ""),
    }
    if bstats:
        cov["bounded_channel"] = {k: v for k, v in bstats.items() if k not in ("clause_hits",)}
        cov["bounded_channel"]["label"] = "bounded (run-time contracts on the real code; never counted in `discharged`)"
        cov["bounded_channel"]["clauses_evaluated"] = len(bstats.get("clause_hits", {}))
        cov["evaluations"] = bstats.get("evaluations", 0)
        cov["distinct_nontrivial"] = bstats.get("distinct_nontrivial", 0)
        cov["rule"] = bstats.get("rule", "")
    if fell_back:
        level_out = "other"
        cov["explanation"] = ("DEDUCTIVE PART UNDECIDED IN THIS RUN (%d of %d obligations discharged; engine notes: %s). The "
                              "verdict of this run rests on the bounded run-time channel only. " % (
                                  discharged, obligations, "; ".join("%s %s" % (e[0], e[1][0]) for e in errors)[:300])
                              + cov.get("explanation", ""))
    elif level == "proof" and discharged != obligations:
        # never claim a proof that did not go through
        level_out = "other"
        cov["explanation"] = "proof incomplete in this run: %d of %d obligations discharged" % (discharged, obligations)
    else:
        level_out = level
    ev = {"property_id": prop, "tier": tier, "seed": seed, "level": level_out, "coverage": cov,
          "assumptions": P.get("trusted", []) + P.get("assumptions", []), "wall_s": round(wall, 2),
          "violations": violations}
    os.makedirs(os.path.join(OUT, "evidence"), exist_ok=True)
    with open(os.path.join(OUT, "evidence", "%s.json" % prop), "w") as f:
        json.dump(ev, f, indent=1)
    print("%s: %d/%d obligations discharged over %d functions/lemmas in %.1fs (solver %.1fs); bounded channel: %s" % (
        prop, discharged, obligations, len(results), wall, solver_seconds,
        ("%d evaluations" % bstats["evaluations"]) if bstats else "none"))
    for ln in lines:
        print(ln)
    return exit_code


def do_replay(path):
    rec = load_json(path, None)
    if rec is None:
        print("cannot read replay file %s" % path)
        return 3
    print("property:", rec.get("property"))
    for o in rec.get("failed_obligations", []):
        print("failed obligation:", o["name"], o["status"], "line", o.get("line"), o.get("source"))
        if o.get("model"):
            print("  solver model (excerpt):", o["model"][:600])
    inp = rec.get("input")
    if not inp:
        print("no concrete input in this replay file (no-failing-input-found); solver output above")
        return 1
    from specs.properties import PROPERTIES
    driver.load_specs()
    mod = importlib.import_module(PROPERTIES[rec["property"]]["bounded"])
    res = mod.replay(inp)
    print("input:", json.dumps({k: v for k, v in inp.items() if k != "observed"})[:2000])
    print("observed now on %s: %s" % (REPO, json.dumps(res)))
    return 1 if res else 0


if __name__ == "__main__":
    sys.exit(main())
