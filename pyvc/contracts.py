"""Sidecar contract registry (DESIGN 1.4).  Contracts are data keyed by qualified function name."""

REGISTRY = {}
SCHEMAS = {}
LEMMAS = {}
STATICS = {}        # name -> fn(repo) -> [(obligation name, bool, line, text)]: finite obligations decided by evaluation
EXTERNALS = {}      # assumed contracts of library functions (numpy, ...): full name -> fn(ex, st, args, kwargs, node)


def external(name):
    def deco(fn):
        EXTERNALS[name] = fn
        return fn
    return deco


class LoopSpec:
    def __init__(self, kind, var=None, inv=None, decreases=None, ghost_pre=None):
        self.kind = kind          # 'while' | 'for'
        self.var = var            # name of the iteration variable (for-loops), fingerprint
        self.inv = inv            # lambda v, old, le: [(name, term), ...]
        self.decreases = decreases


class Contract:
    def __init__(self, qualname, params, requires=None, ensures=None, modifies=(), loops=(),
                 decreases=None, inline=False, lemmas=(), ghost=(), hints=(), configs=None,
                 props=(), trusted=False, locals_types=None, raises=None, fresh=(), split=False, defs=None, assumes=(), late_hints=(), certificate=(), asserts=()):
        self.qualname = qualname
        self.params = params              # ordered {name: type}
        self.requires = requires or (lambda v: [])
        self.ensures = ensures or (lambda v, old, result: [])
        self.modifies = list(modifies)    # paths like 'self.p'
        self.loops = list(loops)
        self.decreases = decreases
        self.inline = inline
        self.lemmas = list(lemmas)        # (anchor, lemma name, binder(v) -> dict)
        self.ghost = list(ghost)          # (anchor, 'python source')
        self.hints = list(hints)          # (anchor, lambda v, old: [(name, term)])
        self.configs = configs or [{}]
        self.props = list(props)          # property ids this contract serves
        self.trusted = trusted            # assumed, body not verified (listed in trusted base)
        self.locals_types = locals_types or {}
        self.raises = raises              # lambda v: condition under which raising is allowed
        self.fresh = list(fresh)
        self.asserts = list(asserts)         # in-line assertions: contract clauses stated at a program point (not proof hints)
        self.late_hints = list(late_hints)   # like hints, but processed after the lemmas of the same anchor
        self.assumes = list(assumes)  # (anchor, lambda v, old: [(name, term)]) instances of assumed external contracts
        self.defs = defs              # lambda v: [(name, term)] definitional axioms of ghost functions
        self.certificate = set(certificate)   # posts proved of the body but not exported to call sites
        self.split = split            # never merge the two arms of an `if` (one VC set per path)


CALL_OVERRIDES = {}   # (caller qualname, callee qualname) -> Contract assumed at that caller's call sites


def contract(qualname, at_caller=None, **kw):
    c = Contract(qualname, **kw)
    if at_caller:
        for caller in at_caller:
            CALL_OVERRIDES[(caller, qualname)] = c
        return c
    REGISTRY[qualname] = c
    return c


def schema(cls, base=None, **fields):
    d = {}
    if base:
        d.update(SCHEMAS[base])
    d.update(fields)
    SCHEMAS[cls] = d


class Lemma:
    """Two flavours.  (a) strong induction on k over [lo, hi): `concl(k=..., **args)`; the engine emits the
    step VC (IH: concl for all j in [lo, k)).  (b) custom: `vcs(**args)` returns the proof obligations
    [(name, assumptions, goal)] and `conclusion(**args)` is what a use site may assume once `hyp` holds."""

    def __init__(self, name, params, hyp, concl=None, lo=None, hi=None, props=(), vcs=None, conclusion=None, hints=None,
                 uses=None):
        self.name, self.params, self.hyp, self.concl, self.lo, self.hi = name, params, hyp, concl, lo, hi
        self.props = list(props)
        self.vcs = vcs
        self.conclusion = conclusion
        self.hints = hints
        self.uses = uses or []      # [(lemma name, binder(k=..., **args) -> dict)] lemmas applied inside the induction step


def lemma(name, **kw):
    LEMMAS[name] = Lemma(name, **kw)
    return LEMMAS[name]
