"""Effect layer (C07, C09, C17 frame parts): a conservative, syntactic may-mutate analysis of the real source.

For every function of /repo it computes the set of PARAMETERS whose array/list object the function may mutate in
place - directly (`p += ..`, `p[..] = ..`, `p.fill(..)`, ..), through an alias (`v = p`, `v = p[..]`, `np.asarray(p)`,
loop variables of `zip/enumerate` over p), or by passing it (or an alias) to a parameter that a callee may mutate
(fix-point over the call graph; method calls are resolved by name to EVERY function of that name, free calls by name).
Arrays held by attributes that alias caller data (`features`, `pre_distances`) are tracked as global roots.
The analysis is sound for "never mutated" claims as long as it is conservative; it can only raise alarms that are
real syntactic in-place writes, so it is also stable under harmless edits.
"""
import ast

MUTATING_METHODS = {"fill", "sort", "resize", "itemset", "put", "partition", "byteswap", "setfield", "append", "insert",
                    "extend", "pop", "remove", "clear", "reverse", "setflags", "__setitem__", "__iadd__", "update"}
FRESH_NUMPY = {"zeros", "ones", "empty", "array", "vstack", "hstack", "copy", "unique", "bincount", "argwhere", "mean",
               "std", "sum", "max", "min", "nansum", "maximum", "minimum", "fabs", "exp", "log", "count_nonzero", "amax",
               "loadtxt", "sqrt", "abs", "sign", "concatenate", "stack", "where", "full", "arange", "permutation"}
ALIASING_NUMPY = {"asarray", "asanyarray", "ascontiguousarray", "ravel", "reshape", "squeeze", "atleast_1d", "atleast_2d",
                  "transpose"}
ATTR_ROOTS = {"features", "_features", "pre_distances", "_pre_distances"}


class FnInfo:
    def __init__(self, qual, node, params):
        self.qual, self.node, self.params = qual, node, params
        self.mut = set()        # parameter names that may be mutated
        self.attr_mut = set()   # attribute roots that may be mutated (directly)
        self.events = []        # (lineno, text, roots)
        self.calls = []         # (callee simple name, [roots of each positional arg], {kw: roots}, lineno, receiver roots)
        self.escapes = {}       # attribute name -> roots stored into it


def analyse(repo):
    infos = {}
    by_name = {}
    for q, (fn, mod, cls) in repo.functions.items():
        params = [a.arg for a in fn.args.args]
        fi = FnInfo(q, fn, params)
        infos[q] = fi
        by_name.setdefault(fn.name, []).append(fi)
        if mod == "opfython.math.distance" or q.endswith("._avoid_zero_division"):
            by_name.setdefault("<metric>", []).append(fi)
        _scan(fi)
    # fix-point
    changed = True
    while changed:
        changed = False
        for fi in infos.values():
            for (name, argroots, kwroots, line, recv) in fi.calls:
                for callee in by_name.get(name, []):
                    cps = callee.params
                    off = 1 if cps and cps[0] == "self" and recv is not None else 0
                    for k, roots in enumerate(argroots):
                        if k + off < len(cps) and cps[k + off] in callee.mut:
                            for r in roots:
                                if _add(fi, r, line, "passed to %s(%s)" % (callee.qual, cps[k + off])):
                                    changed = True
                    for kw, roots in kwroots.items():
                        if kw in callee.mut:
                            for r in roots:
                                if _add(fi, r, line, "passed to %s(%s)" % (callee.qual, kw)):
                                    changed = True
                    if off and "self" in callee.mut and recv:
                        for r in recv:
                            if _add(fi, r, line, "receiver of %s" % callee.qual):
                                changed = True
    return infos


def _add(fi, root, line, why):
    if root.startswith("ATTR:"):
        if root not in fi.attr_mut:
            fi.attr_mut.add(root)
            fi.events.append((line, why, {root}))
            return True
        return False
    if root in fi.params and root not in fi.mut:
        fi.mut.add(root)
        fi.events.append((line, why, {root}))
        return True
    return False


def _scan(fi):
    fn = fi.node
    alias = {p: {p} for p in fi.params}

    def roots(e):
        if e is None:
            return set()
        if isinstance(e, ast.Name):
            return set(alias.get(e.id, set()))
        if isinstance(e, ast.Attribute):
            if e.attr in ATTR_ROOTS:
                return {"ATTR:" + e.attr.lstrip("_")} | roots(e.value)
            if e.attr in ("T", "real", "flat"):
                return roots(e.value)
            return roots(e.value)
        if isinstance(e, ast.Subscript):
            return roots(e.value)
        if isinstance(e, ast.Starred):
            return roots(e.value)
        if isinstance(e, (ast.Tuple, ast.List)):
            out = set()
            for x in e.elts:
                out |= roots(x)
            return out
        if isinstance(e, ast.IfExp):
            return roots(e.body) | roots(e.orelse)
        if isinstance(e, ast.Call):
            f = e.func
            if isinstance(f, ast.Attribute):
                if isinstance(f.value, ast.Name) and f.value.id in ("np", "numpy", "math"):
                    if f.attr in ALIASING_NUMPY:
                        out = set()
                        for a in e.args:
                            out |= roots(a)
                        return out
                    return set()          # every other numpy function used here returns a fresh array / scalar
                if f.attr in ("copy", "astype", "item", "tolist", "tobytes", "sum", "max", "min", "mean", "std"):
                    return set()
                if f.attr in ("reshape", "ravel", "squeeze", "view", "transpose"):
                    return roots(f.value)
                out = roots(f.value)
                for a in e.args:
                    out |= roots(a)
                return out                # conservative: results of other calls may alias receiver and arguments
            if isinstance(f, ast.Name):
                if f.id in ("int", "float", "len", "range", "str", "bool", "abs", "isinstance", "callable", "print"):
                    return set()
                if f.id in ("zip", "enumerate", "list", "tuple", "iter", "reversed", "sorted"):
                    out = set()
                    for a in e.args:
                        out |= roots(a)
                    return out if f.id != "sorted" else set()
                out = set()
                for a in e.args:
                    out |= roots(a)
                return out
            return set()
        if isinstance(e, (ast.BinOp, ast.UnaryOp, ast.Compare, ast.BoolOp, ast.Constant, ast.ListComp, ast.Dict,
                          ast.JoinedStr)):
            return set()                  # arithmetic creates fresh arrays
        return set()

    def bind(tgt, rs):
        if isinstance(tgt, ast.Name):
            alias[tgt.id] = set(rs)
        elif isinstance(tgt, (ast.Tuple, ast.List)):
            for t in tgt.elts:
                bind(t, rs)

    def store(t, rs, line):
        if isinstance(t, ast.Subscript):
            mutate(t.value, line, "element store into `%s`" % ast.unparse(t.value))
        elif isinstance(t, ast.Attribute):
            fi.escapes.setdefault(t.attr, set()).update(rs)

    def mutate(e, line, why):
        for r in roots(e):
            if r.startswith("ATTR:"):
                fi.attr_mut.add(r)
                fi.events.append((line, why, {r}))
            elif r in fi.params:
                fi.mut.add(r)
                fi.events.append((line, why, {r}))

    # two passes so that aliases introduced later in loops are seen (flow-insensitive union)
    for _pass in range(2):
        for n in ast.walk(fn):
            if isinstance(n, ast.FunctionDef) and n is not fn:
                continue
            if isinstance(n, ast.Assign):
                rs = roots(n.value)
                for t in n.targets:
                    if isinstance(t, (ast.Name, ast.Tuple, ast.List)):
                        if isinstance(t, ast.Name):
                            alias[t.id] = alias.get(t.id, set()) | rs if _pass else set(rs)
                        else:
                            if isinstance(n.value, (ast.Tuple, ast.List)) and len(n.value.elts) == len(t.elts):
                                for tt, vv in zip(t.elts, n.value.elts):
                                    if isinstance(tt, ast.Name):
                                        alias[tt.id] = alias.get(tt.id, set()) | roots(vv)
                                    elif isinstance(tt, (ast.Subscript, ast.Attribute)) and _pass:
                                        store(tt, roots(vv), n.lineno)
                            else:
                                bind(t, rs)
                    elif _pass:
                        store(t, rs, n.lineno)
            elif isinstance(n, ast.AugAssign) and _pass:
                t = n.target
                if isinstance(t, ast.Name):
                    scal = {a.arg for a in fn.args.args if a.annotation is not None
                            and ast.unparse(a.annotation) in ("int", "float", "str", "bool")}
                    if alias.get(t.id) and not alias[t.id] <= (scal | {"self"}):
                        mutate(t, n.lineno, "in-place operator on `%s`" % t.id)
                else:
                    base = t.value if isinstance(t, (ast.Subscript, ast.Attribute)) else t
                    if isinstance(t, ast.Subscript):
                        mutate(t.value, n.lineno, "in-place operator on an element of `%s`" % ast.unparse(t.value))
                    elif isinstance(t, ast.Attribute):
                        if t.attr in ATTR_ROOTS:
                            mutate(t, n.lineno, "in-place operator on attribute `%s`" % t.attr)
            elif isinstance(n, ast.For):
                rs = roots(n.iter)
                bind(n.target, rs)
                if isinstance(n.target, ast.Tuple):
                    for t in ast.walk(n.target):
                        if isinstance(t, ast.Name):
                            alias[t.id] = alias.get(t.id, set()) | rs
            elif isinstance(n, ast.Call) and _pass:
                f = n.func
                if isinstance(f, ast.Attribute):
                    if f.attr in MUTATING_METHODS and not (isinstance(f.value, ast.Name) and f.value.id in ("np", "j", "json", "pickle", "logger")):
                        mutate(f.value, n.lineno, "mutating method .%s() on `%s`" % (f.attr, ast.unparse(f.value)))
                    recv = roots(f.value)
                    if f.attr in ("distance_fn", "distance_function"):
                        fi.calls.append(("<metric>", [roots(a) for a in n.args], {}, n.lineno, None))
                    fi.calls.append((f.attr, [roots(a) for a in n.args],
                                     {k.arg: roots(k.value) for k in n.keywords if k.arg}, n.lineno, recv))
                elif isinstance(f, ast.Name):
                    fi.calls.append((f.id, [roots(a) for a in n.args],
                                     {k.arg: roots(k.value) for k in n.keywords if k.arg}, n.lineno, None))
                    if f.id in ("f", "distance_function", "distance_fn"):   # a metric held in a variable
                        fi.calls.append(("<metric>", [roots(a) for a in n.args], {}, n.lineno, None))
                elif isinstance(f, ast.Subscript) and "DISTANCES" in ast.unparse(f.value):
                    fi.calls.append(("<metric>", [roots(a) for a in n.args], {}, n.lineno, None))

    return fi


def scan_stores(repo):
    """(global) every in-place write whose target is an element/attribute of an attribute-held caller array"""
    bad = []
    for q, (fn, mod, cls) in repo.functions.items():
        for n in ast.walk(fn):
            tg = []
            if isinstance(n, ast.Assign):
                tg = n.targets
            elif isinstance(n, ast.AugAssign):
                tg = [n.target]
            for t in tg:
                for s in ([t] + list(t.elts) if isinstance(t, (ast.Tuple, ast.List)) else [t]):
                    base = s
                    through_sub = False
                    while isinstance(base, ast.Subscript):
                        base = base.value
                        through_sub = True
                    if isinstance(base, ast.Attribute) and base.attr in ATTR_ROOTS and \
                            (through_sub or isinstance(n, ast.AugAssign)):
                        bad.append((q, n.lineno, ast.unparse(s)))
    return bad


SCALAR_ANN = {"int", "float", "str", "bool", "Optional[str]", "Optional[bool]", "callable"}


def _scalar_params(fn):
    out = set()
    for a in fn.args.args:
        if a.annotation is not None and ast.unparse(a.annotation) in SCALAR_ANN:
            out.add(a.arg)
    return out


ENTRY_POINTS_C07 = [
    "opfython.utils.decorator.avoid_zero_division._avoid_zero_division",
    "opfython.models.supervised.SupervisedOPF.fit", "opfython.models.supervised.SupervisedOPF.predict",
    "opfython.models.supervised.SupervisedOPF._find_prototypes",
    "opfython.models.semi_supervised.SemiSupervisedOPF.fit",
    "opfython.models.knn_supervised.KNNSupervisedOPF.fit", "opfython.models.knn_supervised.KNNSupervisedOPF.predict",
    "opfython.models.knn_supervised.KNNSupervisedOPF._learn", "opfython.models.knn_supervised.KNNSupervisedOPF._clustering",
    "opfython.models.unsupervised.UnsupervisedOPF.fit", "opfython.models.unsupervised.UnsupervisedOPF.predict",
    "opfython.models.unsupervised.UnsupervisedOPF._best_minimum_cut", "opfython.models.unsupervised.UnsupervisedOPF._clustering",
    "opfython.models.unsupervised.UnsupervisedOPF._normalized_cut",
    "opfython.subgraphs.knn.KNNSubgraph.create_arcs", "opfython.subgraphs.knn.KNNSubgraph.calculate_pdf",
    "opfython.subgraphs.knn.KNNSubgraph.__init__",
    "opfython.core.subgraph.Subgraph.__init__", "opfython.core.subgraph.Subgraph._build",
    "opfython.core.node.Node.__init__", "opfython.core.opf.OPF.get_distances",
    "opfython.math.general.pre_compute_distance",
    # (added in the continuation session: the remaining fitting / predicting entry points that receive caller arrays; `learn` stays
    #  outside - it is licensed to exchange rows between its four arrays, C17)
    "opfython.models.supervised.SupervisedOPF.prune",
    "opfython.models.unsupervised.UnsupervisedOPF.propagate_labels",
]


def obligations(repo, prop="C07"):
    import z3
    from .engine import Obligation
    infos = analyse(repo)
    obs = []

    def mk(name, ok, line=0, text=""):
        ob = Obligation(name, "frame", z3.BoolVal(bool(ok)), [], line, text)
        ob.inconclusive = True        # a MAY-analysis: "may mutate / may read state" is not a refutation
        ob.defs = []
        obs.append(ob)
    entries = list(ENTRY_POINTS_C07)
    for q, (fn, mod, cls) in sorted(repo.functions.items()):
        if mod == "opfython.math.distance":
            entries.append(q)
    for q in entries:
        if q not in infos:
            mk("effects/%s/frame/function-present" % q, False, 0, "entry point not found")
            continue
        fi = infos[q]
        scal = _scalar_params(fi.node)
        for p in fi.params:
            if p == "self" or p in scal:
                continue
            ev = [e for e in fi.events if p in e[2]]
            mk("effects/%s/frame/param-%s-not-mutated" % (q, p), p not in fi.mut, ev[0][0] if ev else fi.node.lineno,
               ev[0][1] if ev else "")
    bad = scan_stores(repo)
    mk("effects/global/frame/no-write-through-feature-or-distance-attributes", not bad, bad[0][1] if bad else 0,
       "; ".join("%s:%d %s" % b for b in bad[:3]))
    am = [(q, fi) for q, fi in infos.items() if fi.attr_mut]
    mk("effects/global/frame/no-function-mutates-attribute-held-caller-arrays", not am, 0,
       "; ".join("%s: %s" % (q, fi.events[0][1]) for q, fi in am[:3]))
    # `reads` part: no global / nonlocal state in the functions above, no RNG or clock except timing of log lines
    for q in entries:
        if q not in infos:
            continue
        fn = infos[q].node
        bad_stmt = [n for n in ast.walk(fn) if isinstance(n, (ast.Global, ast.Nonlocal))]
        rng = [n for n in ast.walk(fn) if isinstance(n, ast.Attribute) and ast.unparse(n).startswith(("np.random", "random."))]
        mk("effects/%s/reads/no-global-state-or-rng" % q, not bad_stmt and not rng, (bad_stmt + rng)[0].lineno if (bad_stmt + rng) else 0)
    return obs
