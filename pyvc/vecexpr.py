"""Vector-expression layer for the 47 metrics (C06, C08; DESIGN §3 C06).

A metric body (straight-line numpy code, plus the one explicit loop of `hassanat`) is symbolically evaluated from
its real AST into  F(R_1..R_m, n)  where each R_k is a reduction (sum / max / count) of a POINTWISE expression
f_k(a, b) over the vector elements a = x_i, b = y_i.  The sidecar closed form (specs/metrics.py) has the same shape.
Obligations:
  (1) `pointwise`: for matched reductions  forall a, b in the domain: f_code(a, b) == f_spec(a, b)   (QF non-linear reals)
  (2) `outer`:     F_code(R, n) == F_spec(R, n) for free reals R constrained by proven sign facts
  (3) `safe`:      denominators != 0, log arguments > 0, root arguments >= 0 on the domain
Congruence of reductions (equal summands => equal sums, for EVERY vector length) is the extensionality axiom of the
external contract table; it is what removes the bound on the vector length.
"""
import ast
import itertools

import z3

from .engine import Obligation, Unsupported
from .source import strip_docstring

REAL = z3.RealSort()
A, B = z3.Real("a_i"), z3.Real("b_i")
N = z3.Real("n_len")
SQRT = z3.Function("SQRT", REAL, REAL)
LOG = z3.Function("LOG", REAL, REAL)
EXPF = z3.Function("EXPF", REAL, REAL)

_cnt = itertools.count()


class Vec:
    def __init__(self, t):
        self.t = t


class Sca:
    def __init__(self, t):
        self.t = t


class Red:
    def __init__(self, kind, body, const):
        self.kind, self.body, self.const = kind, body, const


def rv(x):
    if isinstance(x, (int, float)):
        import fractions
        fr = fractions.Fraction(x)
        return z3.RealVal(fr.numerator) / z3.RealVal(fr.denominator) if fr.denominator != 1 else z3.RealVal(fr.numerator)
    return x


class Ctx:
    """one symbolic evaluation (of the code or of the spec)"""

    def __init__(self, tag, domain):
        self.tag = tag
        self.reds = []
        self.side = []          # axioms for SQRT applications etc. (pointwise or scalar)
        self.safety = []        # (name, pointwise?, condition term, line)
        self.domain = domain
        self.guards = []
        self.uninit = []        # unknowns standing for the elements of an np.empty vector

    def _g(self, cond):
        return z3.Implies(z3.And(*self.guards), cond) if self.guards else cond

    def red(self, kind, body):
        if kind == "sum" and z3.is_app(body) and body.decl().kind() == z3.Z3_OP_MUL and body.num_args() == 2:
            # homogeneity of SUM (external contract table): sum(c * f) = c * sum(f) for a numeric constant c
            x, y = body.arg(0), body.arg(1)
            if z3.is_rational_value(x) or z3.is_int_value(x):
                return x * self.red(kind, y)
            if z3.is_rational_value(y) or z3.is_int_value(y):
                return y * self.red(kind, x)
        for r in self.reds:
            if r.kind == kind and r.body.eq(body):
                return r.const
        c = z3.Real("R_%s_%d" % (self.tag, len(self.reds)))
        self.reds.append(Red(kind, body, c))
        return c

    def sqrt(self, u, pointwise, where):
        s = SQRT(u)
        self.side.append(z3.Implies(u >= 0, z3.And(s >= 0, s * s == u)))
        self.safety.append(("sqrt_arg_nonneg", pointwise, self._g(u >= 0), where))
        return s

    def log(self, u, pointwise, where):
        self.safety.append(("log_arg_positive", pointwise, self._g(u > 0), where))
        return LOG(u)

    def div(self, a, b, pointwise, where):
        self.safety.append(("divisor_nonzero", pointwise, self._g(b != 0), where))
        return a / b


def domain_constraint(domain):
    if domain == "real":
        return z3.BoolVal(True)
    if domain == "nonneg":
        return z3.And(A >= 0, B >= 0)
    if domain == "positive":
        return z3.And(A > 0, B > 0)
    raise ValueError(domain)


# ------------------------------------------------------------------------------------- evaluation of the real code

class CodeEval:
    def __init__(self, repo, ctx, constants):
        self.repo, self.ctx, self.constants = repo, ctx, constants

    def run(self, fn, args):
        env = {}
        params = [a.arg for a in fn.args.args]
        defaults = [None] * (len(params) - len(fn.args.defaults)) + list(fn.args.defaults)
        for i, p in enumerate(params):
            if i < len(args):
                env[p] = args[i]
            elif defaults[i] is not None:
                env[p] = Sca(rv(ast.literal_eval(defaults[i])))
            else:
                raise Unsupported("missing argument")
        for st in strip_docstring(fn):
            r = self.stmt(st, env)
            if r is not None:
                return r
        raise Unsupported("metric does not return")

    def stmt(self, st, env):
        if isinstance(st, ast.Assign) and len(st.targets) == 1 and isinstance(st.targets[0], ast.Name):
            env[st.targets[0].id] = self.expr(st.value, env)
            return None
        if isinstance(st, ast.Return):
            v = self.expr(st.value, env)
            if not isinstance(v, Sca):
                raise Unsupported("metric returns a vector")
            return v
        if isinstance(st, ast.For):
            return self.loop(st, env)
        if isinstance(st, ast.Expr) and isinstance(st.value, ast.Constant):
            return None
        raise Unsupported("statement %s in a metric body (line %d)" % (type(st).__name__, st.lineno))

    def loop(self, st, env):
        """for i in range(x.shape[0]): if C: d[i] = E1 else: d[i] = E2   ==>   d = where(C, E1, E2)   (pointwise)"""
        ok = isinstance(st.target, ast.Name) and isinstance(st.iter, ast.Call) and not st.orelse \
            and ast.unparse(st.iter.func) == "range" and len(st.iter.args) == 1 and not st.iter.keywords
        if ok:
            try:
                bound = self.expr(st.iter.args[0], env)       # the vector length, possibly through a local
                ok = isinstance(bound, Sca) and bound.t.eq(N)
            except Unsupported:
                ok = False
        if not ok:
            raise Unsupported("loop shape in metric body")
        ivar = st.target.id
        # per-element semantics: iteration i reads and writes element i only (checked by the index shapes accepted
        # below), so the loop is the pointwise map  v := ite(path condition of the assignment, value, previous v).
        # `continue` ends the element's iteration; a slot that no path writes keeps the value the vector was created
        # with (0 for np.zeros, an UNKNOWN for np.empty - uninitialised memory).
        state = {"live": z3.BoolVal(True), "written": set(), "locals": set(), "top": True}
        self.block(st.body, env, ivar, z3.BoolVal(True), state)
        for nm in state["locals"]:
            env.pop(nm, None)       # per-element temporaries do not survive the loop
        if not state["written"]:
            raise Unsupported("loop writes no vector")
        return None

    def block(self, stmts, env, ivar, guard, state):
        for node in stmts:
            here = z3.simplify(z3.And(state["live"], guard))
            if isinstance(node, ast.Continue):
                state["live"] = z3.And(state["live"], z3.Not(guard))
                continue
            if isinstance(node, ast.Expr) and isinstance(node.value, ast.Constant):
                continue
            if isinstance(node, ast.If):
                self.ctx.guards.append(here)
                c = self.pexpr(node.test, env, ivar)
                self.ctx.guards.pop()
                top, state["top"] = state["top"], False
                self.block(node.body, env, ivar, z3.And(guard, c), state)
                self.block(node.orelse, env, ivar, z3.And(guard, z3.Not(c)), state)
                state["top"] = top
                continue
            if isinstance(node, ast.Assign) and len(node.targets) == 1 and isinstance(node.targets[0], ast.Name):
                # a per-element temporary: only at the top level of the loop body (it then dominates every later read
                # of the same iteration), never a name that exists outside the loop
                nm = node.targets[0].id
                if not state["top"] or (nm in env and nm not in state["locals"]) or nm == ivar:
                    raise Unsupported("assignment to %s inside the per-element loop" % nm)
                self.ctx.guards.append(here)
                val = self.pexpr(node.value, env, ivar)
                self.ctx.guards.pop()
                env[nm] = Vec(val)
                state["locals"].add(nm)
                continue
            if isinstance(node, ast.Assign) and len(node.targets) == 1 and isinstance(node.targets[0], ast.Subscript) \
                    and isinstance(node.targets[0].value, ast.Name) and isinstance(node.targets[0].slice, ast.Name) \
                    and node.targets[0].slice.id == ivar:
                tgt = node.targets[0].value.id
                if tgt not in env or not isinstance(env[tgt], Vec):
                    raise Unsupported("loop assigns to an element of %s, which is not a vector created before" % tgt)
                self.ctx.guards.append(here)
                val = self.pexpr(node.value, env, ivar)
                self.ctx.guards.pop()
                env[tgt] = Vec(z3.If(here, val, env[tgt].t))
                state["written"].add(tgt)
                continue
            raise Unsupported("loop body statement %s" % type(node).__name__)

    def pexpr(self, e, env, ivar):
        """expression inside the per-element loop: v[i] denotes the element"""
        class Elem(ast.NodeTransformer):
            def visit_Subscript(s, node):
                if isinstance(node.slice, ast.Name) and node.slice.id == ivar and isinstance(node.value, ast.Name):
                    return ast.copy_location(ast.Name(id=node.value.id, ctx=ast.Load()), node)
                return s.generic_visit(node)
        import copy
        e2 = Elem().visit(copy.deepcopy(e))
        # `mask[i] is True` inside @njit is equality on booleans (numba), recorded deviation from CPython
        if isinstance(e2, ast.Compare) and len(e2.ops) == 1 and isinstance(e2.ops[0], ast.Is) \
                and isinstance(e2.comparators[0], ast.Constant) and e2.comparators[0].value in (True, False) \
                and isinstance(e2.comparators[0].value, bool):
            v = self.expr(e2.left, env)
            return v.t if e2.comparators[0].value else z3.Not(v.t)
        v = self.expr(e2, env)
        return v.t

    def expr(self, e, env):
        ctx = self.ctx
        if isinstance(e, ast.Constant):
            return Sca(rv(e.value))
        if isinstance(e, ast.Name):
            if e.id in env:
                return env[e.id]
            raise Unsupported("name %s" % e.id)
        if isinstance(e, ast.Attribute):
            s = ast.unparse(e)
            if s.startswith("c."):
                return Sca(rv(self.constants[e.attr]))
            raise Unsupported("attribute %s" % s)
        if isinstance(e, ast.Subscript):
            s = ast.unparse(e)
            if s in ("x.shape[0]", "y.shape[0]"):
                return Sca(N)
            raise Unsupported("subscript %s" % s)
        if isinstance(e, ast.UnaryOp) and isinstance(e.op, ast.USub):
            v = self.expr(e.operand, env)
            return type(v)(-v.t)
        if isinstance(e, ast.BinOp):
            a, b = self.expr(e.left, env), self.expr(e.right, env)
            pw = isinstance(a, Vec) or isinstance(b, Vec)
            K = Vec if pw else Sca
            if isinstance(e.op, ast.Add):
                return K(a.t + b.t)
            if isinstance(e.op, ast.Sub):
                return K(a.t - b.t)
            if isinstance(e.op, ast.Mult):
                return K(a.t * b.t)
            if isinstance(e.op, ast.Div):
                return K(ctx.div(a.t, b.t, pw, e.lineno))
            if isinstance(e.op, ast.Pow):
                if isinstance(e.right, ast.Constant) and e.right.value == 2:
                    return K(a.t * a.t)
                if isinstance(e.right, ast.Constant) and e.right.value == 0.5:
                    return K(ctx.sqrt(a.t, pw, e.lineno))
                raise Unsupported("power %s" % ast.unparse(e.right))
            raise Unsupported("operator")
        if isinstance(e, ast.Compare) and len(e.ops) == 1:
            a, b = self.expr(e.left, env), self.expr(e.comparators[0], env)
            pw = isinstance(a, Vec) or isinstance(b, Vec)
            K = Vec if pw else Sca
            op = e.ops[0]
            if isinstance(op, ast.NotEq):
                return K(a.t != b.t)
            if isinstance(op, ast.GtE):
                return K(a.t >= b.t)
            if isinstance(op, ast.Gt):
                return K(a.t > b.t)
            if isinstance(op, ast.LtE):
                return K(a.t <= b.t)
            if isinstance(op, ast.Lt):
                return K(a.t < b.t)
            if isinstance(op, ast.Eq):
                return K(a.t == b.t)
            raise Unsupported("comparison")
        if isinstance(e, ast.Call):
            f = ast.unparse(e.func)
            args = [self.expr(x, env) for x in e.args]
            if f in ("np.sum",):
                if not isinstance(args[0], Vec):
                    raise Unsupported("sum of scalar")
                return Sca(ctx.red("sum", args[0].t))
            if f in ("np.amax", "np.max"):
                return Sca(ctx.red("max", args[0].t))
            if f == "np.count_nonzero":
                t = args[0].t
                if not z3.is_bool(t):
                    t = t != 0
                return Sca(ctx.red("count", t))
            if f == "np.fabs":
                v = args[0]
                return type(v)(z3.If(v.t >= 0, v.t, -v.t))
            if f in ("np.minimum", "np.maximum"):
                a, b = args
                pw = isinstance(a, Vec) or isinstance(b, Vec)
                K = Vec if pw else Sca
                if f.endswith("minimum"):
                    return K(z3.If(a.t <= b.t, a.t, b.t))
                return K(z3.If(a.t >= b.t, a.t, b.t))
            if f in ("max", "min") and len(args) == 2:
                a, b = args
                return Sca(z3.If(a.t >= b.t, a.t, b.t) if f == "max" else z3.If(a.t <= b.t, a.t, b.t))
            if f in ("np.log", "math.log"):
                v = args[0]
                return type(v)(ctx.log(v.t, isinstance(v, Vec), e.lineno))
            if f in ("np.exp", "math.exp"):
                v = args[0]
                return type(v)(EXPF(v.t))
            if f == "np.zeros":
                return Vec(z3.RealVal(0))
            if f in ("np.empty", "np.empty_like"):
                # uninitialised memory: an unknown per element, unrelated to the arguments (a closed form that still
                # holds for every value of it never observes it)
                u = z3.FreshConst(z3.RealSort(), "uninitialised")
                ctx.uninit.append(u)
                return Vec(u)
            # another metric of the same module (by its own symbolic evaluation)
            q = "opfython.math.distance." + f
            if q in self.repo.functions:
                fn, _, _ = self.repo.function(q)
                decs = [ast.unparse(d) for d in fn.decorator_list]
                if any("avoid_zero_division" in d for d in decs):
                    raise Unsupported("call to a decorated metric from a metric body")
                return CodeEval(self.repo, ctx, self.constants).run(fn, args)
            raise Unsupported("call %s in a metric body" % f)
        raise Unsupported("expression %s in a metric body" % type(e).__name__)


# ------------------------------------------------------------------------------------- spec side

class SpecAPI:
    """what the closed forms in specs/metrics.py are written with"""

    def __init__(self, ctx):
        self.ctx = ctx
        self.n = N

    def S(self, f):
        return self.ctx.red("sum", rv(f(A, B)))

    def M(self, f):
        return self.ctx.red("max", rv(f(A, B)))

    def C(self, f):
        return self.ctx.red("count", f(A, B))

    def sqrt(self, u):
        return self.ctx.sqrt(rv(u), False, 0)

    def psqrt(self, u):
        return self.ctx.sqrt(rv(u), True, 0)

    def log(self, u):
        return LOG(rv(u))

    def exp(self, u):
        return EXPF(rv(u))

    def abs(self, u):
        u = rv(u)
        return z3.If(u >= 0, u, -u)

    def min(self, u, v):
        u, v = rv(u), rv(v)
        return z3.If(u <= v, u, v)

    def max(self, u, v):
        u, v = rv(u), rv(v)
        return z3.If(u >= v, u, v)

    def where(self, c, u, v):
        return z3.If(c, rv(u), rv(v))


# ------------------------------------------------------------------------------------- obligations

def sign_facts(ctx, dom):
    """facts about reductions that follow from pointwise facts; each is itself checked (kind `red-fact`)"""
    facts, checks = [z3.And(N >= 1)], []
    for r in ctx.reds:
        if r.kind == "count":
            facts.append(z3.And(r.const >= 0, r.const <= N))
            s = z3.Solver()
            s.set("timeout", 4000)
            s.add(dom)
            s.push()
            s.add(z3.Not(r.body))
            if s.check() == z3.unsat:
                facts.append(r.const == N)      # the counted condition holds for every element
            s.pop()
            s.add(r.body)
            if s.check() == z3.unsat:
                facts.append(r.const == 0)
            continue
        s = z3.Solver()
        s.set("timeout", 1500)
        for ax in ctx.side + (_log_side() if "LOG" in r.body.sexpr() else []):
            s.add(ax)
        s.add(dom)
        s.push()
        s.add(z3.Not(r.body > 0))
        pos = s.check() == z3.unsat
        s.pop()
        if pos:
            facts.append(r.const > 0)
            continue
        s.push()
        s.add(z3.Not(r.body >= 0))
        nn = s.check() == z3.unsat
        s.pop()
        if nn:
            facts.append(r.const >= 0)
    return facts


def linear_sum_facts(ctx, dom, terms):
    """additivity + homogeneity of SUM: a term that is a linear combination (numeric coefficients) of sum-reductions
    equals the sum of the same combination of the summands; if that summand is positive (non-negative) on the domain
    so is the term"""
    sums = {r.const.get_id(): r for r in ctx.reds if r.kind == "sum"}
    facts = []

    def lin(t):
        """returns pointwise summand if t is linear in the sum constants, else None"""
        if t.get_id() in sums:
            return sums[t.get_id()].body
        if z3.is_rational_value(t) or z3.is_int_value(t):
            return None
        if z3.is_app(t):
            k = t.decl().kind()
            if k == z3.Z3_OP_ADD:
                parts = [lin(c) for c in t.children()]
                return None if any(p is None for p in parts) else z3.Sum(parts)
            if k == z3.Z3_OP_SUB and t.num_args() == 2:
                a, b = lin(t.arg(0)), lin(t.arg(1))
                return None if a is None or b is None else a - b
            if k == z3.Z3_OP_UMINUS:
                a = lin(t.arg(0))
                return None if a is None else -a
            if k == z3.Z3_OP_MUL and t.num_args() == 2:
                x, y = t.arg(0), t.arg(1)
                if z3.is_rational_value(x) or z3.is_int_value(x):
                    a = lin(y)
                    return None if a is None else x * a
                if z3.is_rational_value(y) or z3.is_int_value(y):
                    a = lin(x)
                    return None if a is None else y * a
        return None
    for t in terms:
        body = lin(t)
        if body is None or t.get_id() in sums:
            continue
        s = z3.Solver()
        s.set("timeout", 1500)
        for ax in ctx.side:
            s.add(ax)
        s.add(dom)
        s.push()
        s.add(z3.Not(body > 0))
        if s.check() == z3.unsat:
            facts.append(t > 0)
            s.pop()
            continue
        s.pop()
        s.add(z3.Not(body >= 0))
        if s.check() == z3.unsat:
            facts.append(t >= 0)
    return facts


def subterms(t, acc=None, seen=None):
    acc = [] if acc is None else acc
    seen = set() if seen is None else seen
    if t.get_id() in seen:
        return acc
    seen.add(t.get_id())
    acc.append(t)
    for c in t.children():
        subterms(c, acc, seen)
    return acc


def mk(name, kind, assumptions, goal, line=0, text=""):
    ob = Obligation(name, kind, goal, assumptions, line, text)
    ob.defs = []
    # syntactic shape obligations (decorator body, constructor wiring): a mismatch means "shape not recognised", which
    # is no refutation; the registry KEY comparisons are facts about literals and stay definite
    ob.inconclusive = kind == "static" and "/static/keys/" not in name and "/static/entry/" not in name \
        and "/static/registry/present" not in name
    return ob


def verify_metric(repo, name, spec, constants):
    """name: registry identifier; spec: dict(domain=..., form=lambda m: ..., decorated=bool)"""
    qual = "metric:" + name
    obs = []
    reg = registry(repo)
    if name not in reg:
        obs.append(mk(qual + "/static/registry/present", "static", [], z3.BoolVal(False), 0, "identifier missing from DISTANCES"))
        return obs
    fname = reg[name]
    fn, _, _ = repo.function("opfython.math.distance." + fname)
    decs = [ast.unparse(d) for d in fn.decorator_list]
    decorated = any("avoid_zero_division" in d for d in decs)
    obs.append(mk(qual + "/static/decorator/as-specified", "static", [], z3.BoolVal(decorated == spec["decorated"]),
                  fn.lineno, "decorated=%s" % decorated))
    dom = domain_constraint(spec["domain"])
    cctx = Ctx("c", spec["domain"])
    ev = CodeEval(repo, cctx, constants)
    fcode = ev.run(fn, [Vec(A), Vec(B)]).t
    sctx = Ctx("s", spec["domain"])
    fspec = rv(spec["form"](SpecAPI(sctx)))
    side = cctx.side + sctx.side
    # (3) safety on the domain
    for i, (nm, pw, cond, line) in enumerate(cctx.safety):
        if pw:
            obs.append(mk("%s/safe/pointwise/%s#%d" % (qual, nm, i), "safe", side + [dom], cond, line))
    # (1) match reductions pointwise
    subst = []
    for rc in cctx.reds:
        matched = None
        for rs in sctx.reds:
            if rs.kind != rc.kind:
                continue
            s = z3.Solver()
            s.set("timeout", 8000)
            for ax in side:
                s.add(ax)
            s.add(dom)
            if z3.is_bool(rc.body) != z3.is_bool(rs.body):
                continue
            s.add(rc.body != rs.body)
            if s.check() == z3.unsat:
                matched = rs
                break
        if matched is not None:
            obs.append(mk("%s/pointwise/%s/R%d" % (qual, rc.kind, cctx.reds.index(rc)), "pointwise", side + [dom],
                          rc.body == matched.body))
            subst.append((rc.const, matched.const))
    fcode2 = z3.substitute(fcode, *subst) if subst else fcode
    safety_scalar = [(nm, z3.substitute(cond, *subst) if subst else cond, line)
                     for (nm, pw, cond, line) in cctx.safety if not pw]
    side2 = [z3.substitute(ax, *subst) if subst else ax for ax in side]
    # facts about reductions
    allctx = Ctx("u", spec["domain"])
    allctx.reds = sctx.reds + [r for r in cctx.reds if not any(r.const.eq(a) for a, _ in subst)]
    allctx.side = side
    facts = sign_facts(allctx, dom)
    cand = []
    for t in [fcode2, fspec] + [c for (_, c, _) in safety_scalar]:
        cand += [x for x in subterms(t) if z3.is_app(x) and z3.is_real(x)
                 and x.decl().kind() in (z3.Z3_OP_ADD, z3.Z3_OP_SUB)]
    facts += linear_sum_facts(allctx, dom, cand)
    for i, (nm, cond, line) in enumerate(safety_scalar):
        obs.append(mk("%s/safe/scalar/%s#%d" % (qual, nm, i), "safe", side2 + facts, cond, line))
    # (4) the value never observes uninitialised memory (np.empty): every reduction body and the outer expression take
    #     the same value for any two contents of such a vector  (C07: "depends only on the argument values")
    indep = []
    for u in cctx.uninit:
        u1, u2 = z3.FreshConst(z3.RealSort(), "mem_a"), z3.FreshConst(z3.RealSort(), "mem_b")
        for t in [r.body for r in cctx.reds] + [fcode]:
            if any(x.eq(u) for x in subterms(t)):
                indep.append(z3.substitute(t, (u, u1)) == z3.substitute(t, (u, u2)))
    obs.append(mk("%s/reads/no-uninitialised-memory" % qual, "post", side + [dom],
                  z3.And(*indep) if indep else z3.BoolVal(True), fn.lineno,
                  "%d vector(s) created by np.empty" % len(cctx.uninit)))
    # (2) outer equality
    obs.append(mk("%s/outer/equals-closed-form" % qual, "outer", side2 + facts, fcode2 == fspec, fn.lineno,
                  "unmatched code reductions: %d" % (len(cctx.reds) - len(subst))))
    return obs


def registry(repo):
    """DISTANCES dict literal: identifier -> function name"""
    mod = repo.modules["opfython.math.distance"]
    for st in mod.body:
        if isinstance(st, ast.Assign) and isinstance(st.targets[0], ast.Name) and st.targets[0].id == "DISTANCES":
            out = {}
            for k, v in zip(st.value.keys, st.value.values):
                out[k.value] = v.id if isinstance(v, ast.Name) else ast.unparse(v)
            return out
    return {}


def whitelist(repo):
    """the literal list in OPF.distance's setter"""
    ci = repo.classes["OPF"]
    setter = ci.setters["distance"]
    for n in ast.walk(setter):
        if isinstance(n, ast.Compare) and isinstance(n.ops[0], ast.NotIn) and isinstance(n.comparators[0], ast.List):
            return [e.value for e in n.comparators[0].elts]
    return None


def wrapper_shifts(repo, fn):
    """symbolically evaluate the decorator's wrapper: the wrapped function must be called with (x + EPSILON, y + EPSILON)"""
    ctx = Ctx("w", "real")
    ev = CodeEval(repo, ctx, repo.constants)
    env = {"x": Vec(A), "y": Vec(B)}
    eps = rv(repo.constants["EPSILON"])
    try:
        for st in strip_docstring(fn):
            if isinstance(st, ast.AugAssign) and isinstance(st.target, ast.Name) and isinstance(st.op, ast.Add):
                cur, inc = env[st.target.id], ev.expr(st.value, env)
                env[st.target.id] = Vec(cur.t + inc.t)
            elif isinstance(st, ast.Assign) and len(st.targets) == 1 and isinstance(st.targets[0], ast.Name):
                v = st.value
                if isinstance(v, ast.Call) and ast.unparse(v.func) in ("np.asarray", "np.array") and v.args:
                    env[st.targets[0].id] = ev.expr(v.args[0], env)
                else:
                    env[st.targets[0].id] = ev.expr(v, env)
            elif isinstance(st, ast.Return) and isinstance(st.value, ast.Call) and ast.unparse(st.value.func) == "f" \
                    and len(st.value.args) == 2 and not st.value.keywords:
                a0, a1 = ev.expr(st.value.args[0], env), ev.expr(st.value.args[1], env)
                s = z3.Solver()
                s.add(z3.Or(a0.t != A + eps, a1.t != B + eps))
                if s.check() == z3.unsat:
                    return True, "f(x + EPSILON, y + EPSILON)"
                return False, "wrapped metric is called with (%s, %s)" % (a0.t, a1.t)
            else:
                return False, "unsupported statement in the wrapper: %s" % ast.unparse(st)[:80]
    except Unsupported as ex:
        return False, "unsupported: %s" % ex
    return False, "wrapper does not call the wrapped metric"


def verify_registry(repo, specs):
    """finite obligations discharged by evaluation of the literals (kind `static`)"""
    obs = []
    reg = registry(repo)
    wl = whitelist(repo)
    q = "registry"
    obs.append(mk(q + "/static/whitelist/found", "static", [], z3.BoolVal(wl is not None)))
    obs.append(mk(q + "/static/keys/equal-whitelist", "static", [], z3.BoolVal(wl is not None and sorted(reg) == sorted(wl)),
                  0, "registry-only: %s; whitelist-only: %s" % (sorted(set(reg) - set(wl or [])), sorted(set(wl or []) - set(reg)))))
    obs.append(mk(q + "/static/keys/equal-spec-table", "static", [], z3.BoolVal(sorted(reg) == sorted(specs))))
    obs.append(mk(q + "/static/keys/no-duplicates", "static", [], z3.BoolVal(wl is not None and len(set(wl)) == len(wl))))
    for k, f in sorted(reg.items()):
        obs.append(mk("%s/static/entry/%s" % (q, k), "static", [], z3.BoolVal(f == k + "_distance"), 0, f))
    # OPF.__init__ binds distance_fn = d.DISTANCES[distance]
    init = repo.classes["OPF"].methods["__init__"]
    src = ast.unparse(init)
    obs.append(mk(q + "/static/OPF.__init__/binds-registry-entry", "static", [],
                  z3.BoolVal("self.distance_fn = d.DISTANCES[distance]" in src and "self.distance = distance" in src)))
    # the four model constructors pass `distance` through unchanged
    for cls in ("SupervisedOPF", "SemiSupervisedOPF", "KNNSupervisedOPF", "UnsupervisedOPF"):
        init = repo.classes[cls].methods["__init__"]
        src = ast.unparse(init)
        ok = ("super(%s, self).__init__(distance, pre_computed_distance)" % cls) in src
        # `distance` must not be reassigned before the super call
        for n in ast.walk(init):
            if isinstance(n, (ast.Assign, ast.AugAssign)):
                tg = n.targets if isinstance(n, ast.Assign) else [n.target]
                if any(isinstance(t, ast.Name) and t.id == "distance" for t in tg):
                    ok = False
        obs.append(mk("%s/static/%s.__init__/passes-distance-through" % (q, cls), "static", [], z3.BoolVal(ok)))
    # the wrapper passes x + EPSILON, y + EPSILON to the wrapped metric (value semantics; aliasing is C07's business)
    fn, _, _ = repo.function("opfython.utils.decorator.avoid_zero_division._avoid_zero_division")
    ok, why = wrapper_shifts(repo, fn)
    obs.append(mk(q + "/static/decorator/shifts-by-EPSILON", "static", [], z3.BoolVal(ok), fn.lineno, why))
    return obs


# ------------------------------------------------------------------------------------- C08: axioms over the closed forms

class SwapAPI(SpecAPI):
    """the closed form evaluated at (y, x)"""

    def S(self, f):
        return self.ctx.red("sum", rv(f(B, A)))

    def M(self, f):
        return self.ctx.red("max", rv(f(B, A)))

    def C(self, f):
        return self.ctx.red("count", f(B, A))


class SelfAPI(SpecAPI):
    """the closed form evaluated at (x, x)"""

    def S(self, f):
        return self.ctx.red("sum", rv(f(A, A)))

    def M(self, f):
        return self.ctx.red("max", rv(f(A, A)))

    def C(self, f):
        return self.ctx.red("count", f(A, A))


LOG_AXIOMS_NOTE = "log: log(1) = 0 (assumed); sqrt: non-negative root of a non-negative number"


def _log_side():
    """ASSUMED properties of log (external contract): log 1 = 0, sign of log around 1, log(u / v) = log u - log v"""
    u, w = z3.Reals("lg_u lg_w")
    return [LOG(z3.RealVal(1)) == 0,
            z3.ForAll([u], z3.And(z3.Implies(u >= 1, LOG(u) >= 0), z3.Implies(u > 1, LOG(u) > 0),
                                  z3.Implies(z3.And(u > 0, u < 1), LOG(u) < 0)), patterns=[LOG(u)]),
            z3.ForAll([u, w], z3.Implies(z3.And(u > 0, w > 0), LOG(u / w) == LOG(u) - LOG(w)), patterns=[LOG(u / w)])]


def verify_axioms(repo, name, spec):
    """symmetric / non-negative / zero self-distance as lemmas over the closed form (which C06 proves equal to the code).
    Reductions: equal summands give equal sums (congruence); a sum / max / count of pointwise-zero (false) terms is 0;
    sign facts as in C06."""
    qual = "axioms:" + name
    obs = []
    ax = spec["axioms"].split()
    dom = domain_constraint(spec["domain"])
    base = Ctx("s", spec["domain"])
    F = rv(spec["form"](SpecAPI(base)))
    if "sym" in ax:
        sw = Ctx("w", spec["domain"])
        Fs = rv(spec["form"](SwapAPI(sw)))
        side = base.side + sw.side + _log_side()
        subst, unmatched = [], 0
        for r2 in sw.reds:
            m = None
            for r1 in base.reds:
                if r1.kind != r2.kind or z3.is_bool(r1.body) != z3.is_bool(r2.body):
                    continue
                s = z3.Solver()
                s.set("timeout", 8000)
                for a in side:
                    s.add(a)
                s.add(dom)
                s.add(r1.body != r2.body)
                if s.check() == z3.unsat:
                    m = r1
                    break
            if m is not None:
                subst.append((r2.const, m.const))
            else:
                unmatched += 1
        Fs2 = z3.substitute(Fs, *subst) if subst else Fs
        side2 = [z3.substitute(a, *subst) if subst else a for a in side]
        u = Ctx("u", spec["domain"])
        u.reds = base.reds + [r for r in sw.reds if not any(r.const.eq(a) for a, _ in subst)]
        u.side = side
        facts = sign_facts(u, dom)
        obs.append(mk(qual + "/lemma/symmetric", "lemma", side2 + facts, F == Fs2, 0,
                      "reductions of d(y,x) not matched pointwise with one of d(x,y): %d" % unmatched))
    if "nonneg" in ax:
        u = Ctx("u", spec["domain"])
        u.reds, u.side = base.reds, base.side
        facts = sign_facts(u, dom)
        cand = [x for x in subterms(F) if z3.is_app(x) and z3.is_real(x) and x.decl().kind() in (z3.Z3_OP_ADD, z3.Z3_OP_SUB)]
        facts += linear_sum_facts(u, dom, cand)
        obs.append(mk(qual + "/lemma/non-negative", "lemma", base.side + _log_side() + facts, F >= 0))
    if "zero" in ax:
        se = Ctx("z", spec["domain"])
        Fz = rv(spec["form"](SelfAPI(se)))
        facts = [N >= 1]
        dz = z3.And(dom, A == B)
        for r in se.reds:
            s = z3.Solver()
            s.set("timeout", 8000)
            for a in se.side + (_log_side() if "LOG" in r.body.sexpr() else []):
                s.add(a)
            s.add(dz)
            zero = False
            if z3.is_bool(r.body):
                s.add(r.body)
                zero = s.check() == z3.unsat
            else:
                s.add(r.body != 0)
                zero = s.check() == z3.unsat
            if zero:
                facts.append(r.const == 0)      # a reduction of identically zero (false) terms is 0
            else:
                # otherwise only its sign / value facts
                u = Ctx("u", spec["domain"])
                u.reds, u.side = [r], se.side
                facts += sign_facts(u, dz)[1:]
        obs.append(mk(qual + "/lemma/zero-self-distance", "lemma", se.side + _log_side() + facts, Fz == 0))
    return obs


TRIANGLE_POINTWISE = {
    # metric -> (pointwise term g(a, b), how the metric is built from the reduction of g)
    "manhattan": ("sum", lambda a, b: z3.If(a - b >= 0, a - b, b - a)),
    "gower": ("sum", lambda a, b: z3.If(a - b >= 0, a - b, b - a)),
    "non_intersection": ("sum", lambda a, b: z3.If(a - b >= 0, a - b, b - a)),
    "hamming": ("sum", lambda a, b: z3.If(a != b, z3.RealVal(1), z3.RealVal(0))),
    "canberra": ("sum", lambda a, b: z3.If(a - b >= 0, a - b, b - a) / (z3.If(a >= 0, a, -a) + z3.If(b >= 0, b, -b))),
    "chebyshev": ("max", lambda a, b: z3.If(a - b >= 0, a - b, b - a)),
    "lorentzian": ("sum-log", lambda a, b: 1 + z3.If(a - b >= 0, a - b, b - a)),
}


def verify_triangle(repo, name, spec):
    """pointwise triangle inequality of the summand; additivity + monotonicity of SUM (sub-additivity + monotonicity of
    AMAX) then give the inequality for the metric (a positive multiple or a division by n preserves it).  For
    lorentzian the pointwise fact is (1+|a-c|) <= (1+|a-b|)(1+|b-c|) and log is assumed monotone with log(uv) = log u + log v."""
    qual = "axioms:" + name
    kind, g = TRIANGLE_POINTWISE[name]
    a, b, c = z3.Reals("tri_a tri_b tri_c")
    dom = z3.BoolVal(True)
    if spec["domain"] == "positive":
        dom = z3.And(a > 0, b > 0, c > 0)
    elif spec["domain"] == "nonneg":
        dom = z3.And(a >= 0, b >= 0, c >= 0)
    if kind == "sum-log":
        goal = g(a, c) <= g(a, b) * g(b, c)
    else:
        goal = g(a, c) <= g(a, b) + g(b, c)
    # the summand used here must be the summand of the closed form (same reduction body)
    ctx = Ctx("t", spec["domain"])
    rv(spec["form"](SpecAPI(ctx)))
    body = ctx.reds[0].body if ctx.reds else None
    if kind == "sum-log":
        mine = LOG(g(A, B))
    else:
        mine = rv(g(A, B))
    same = mk(qual + "/lemma/triangle/summand-is-the-closed-form-summand", "lemma", [domain_constraint(spec["domain"])],
              body == mine if body is not None and not z3.is_bool(body) else
              (z3.If(body, z3.RealVal(1), z3.RealVal(0)) == mine if body is not None else z3.BoolVal(False)))
    return [same, mk(qual + "/lemma/triangle/pointwise", "lemma", [dom], goal)]
