/-
The pencil step of property C01 (and C15), mechanised: if the costs satisfy the Bellman closure over all ordered
pairs, prototypes have cost 0, and every other sample attains max(cost(pred), w(pred, x)) through a predecessor of
strictly smaller rank (these are exactly the discharged postconditions a_closure / a_prototypes / b_links /
acyclic_rank of `fit`), then cost(x) is the minimum, over all walks from a prototype to x, of the largest arc weight
on the walk - and the predecessor chain is a walk that attains it.
Walks are given by their first vertex and the list of the following vertices.
-/
import Mathlib

variable {V : Type}

/-- last vertex of the walk a, l₀, l₁, ... -/
def lastOf (a : V) : List V → V
  | [] => a
  | b :: l => lastOf b l

/-- largest arc weight along the walk (0 for the walk without arcs) -/
def walkMax (w : V → V → ℝ) (a : V) : List V → ℝ
  | [] => 0
  | b :: l => max (w a b) (walkMax w b l)

theorem walkMax_nonneg (w : V → V → ℝ) (hw : ∀ a b, 0 ≤ w a b) (a : V) (l : List V) : 0 ≤ walkMax w a l := by
  induction l generalizing a with
  | nil => simp [walkMax]
  | cons b l ih => exact le_trans (hw a b) (le_max_left _ _)

/-- closure ⇒ the cost at the end of ANY walk is at most max(cost of its start, largest arc on it) -/
theorem cost_le_walk (w : V → V → ℝ) (cost : V → ℝ)
    (closure : ∀ p q, p ≠ q → cost q ≤ max (cost p) (w p q)) (a : V) (l : List V) :
    cost (lastOf a l) ≤ max (cost a) (walkMax w a l) := by
  induction l generalizing a with
  | nil => simp [lastOf, walkMax]
  | cons b l ih =>
    have h1 : cost (lastOf b l) ≤ max (cost b) (walkMax w b l) := ih b
    have h2 : cost b ≤ max (cost a) (w a b) := by
      by_cases hab : a = b
      · subst hab; exact le_max_left _ _
      · exact closure a b hab
    simp only [lastOf, walkMax]
    refine le_trans h1 ?_
    refine max_le ?_ ?_
    · refine le_trans h2 ?_
      exact max_le (le_max_left _ _) (le_trans (le_max_left _ _) (le_max_right _ _))
    · exact le_trans (le_max_right _ _) (le_max_right _ _)

/-- lower bound: from a prototype (cost 0) every walk to x has a largest arc of at least cost x -/
theorem cost_le_walk_from_prototype (w : V → V → ℝ) (cost : V → ℝ) (hw : ∀ a b, 0 ≤ w a b)
    (closure : ∀ p q, p ≠ q → cost q ≤ max (cost p) (w p q)) (a : V) (ha : cost a = 0) (l : List V) :
    cost (lastOf a l) ≤ walkMax w a l := by
  have h := cost_le_walk w cost closure a l
  rw [ha] at h
  exact le_trans h (max_le (walkMax_nonneg w hw a l) le_rfl)

theorem lastOf_append (a x : V) (l : List V) : lastOf a (l ++ [x]) = x := by
  induction l generalizing a with
  | nil => simp [lastOf]
  | cons b l ih => simpa [lastOf] using ih b

theorem walkMax_append (w : V → V → ℝ) (a x : V) (l : List V) :
    walkMax w a (l ++ [x]) = max (walkMax w a l) (w (lastOf a l) x) := by
  induction l generalizing a with
  | nil => simp [walkMax, lastOf, max_comm]
  | cons b l ih => simp [walkMax, lastOf, ih b, max_assoc]

/-- attainment: the predecessor chain is a walk from a prototype to x whose largest arc equals cost x -/
theorem pred_chain_attains (w : V → V → ℝ) (cost : V → ℝ) (isProto : V → Prop) (pred : V → V) (rank : V → ℕ)
    (hproto : ∀ x, isProto x → cost x = 0)
    (hlink : ∀ x, ¬ isProto x → rank (pred x) < rank x ∧ cost x = max (cost (pred x)) (w (pred x) x)) :
    ∀ x, ∃ a l, isProto a ∧ lastOf a l = x ∧ walkMax w a l = cost x := by
  intro x
  induction h : rank x using Nat.strong_induction_on generalizing x with
  | _ k ih =>
    by_cases hx : isProto x
    · exact ⟨x, [], hx, rfl, by simp [walkMax, hproto x hx]⟩
    · obtain ⟨hlt, hc⟩ := hlink x hx
      obtain ⟨a, l, ha, hl, hm⟩ := ih (rank (pred x)) (by omega) (pred x) rfl
      refine ⟨a, l ++ [x], ha, lastOf_append a x l, ?_⟩
      rw [walkMax_append, hl, hm, hc]

/-- the statement of C01 in one piece: cost x = min over walks from prototypes of the largest arc -/
theorem optimum_path_cost (w : V → V → ℝ) (cost : V → ℝ) (isProto : V → Prop) (pred : V → V) (rank : V → ℕ)
    (hw : ∀ a b, 0 ≤ w a b)
    (closure : ∀ p q, p ≠ q → cost q ≤ max (cost p) (w p q))
    (hproto : ∀ x, isProto x → cost x = 0)
    (hlink : ∀ x, ¬ isProto x → rank (pred x) < rank x ∧ cost x = max (cost (pred x)) (w (pred x) x)) (x : V) :
    (∀ a l, isProto a → lastOf a l = x → cost x ≤ walkMax w a l) ∧
    (∃ a l, isProto a ∧ lastOf a l = x ∧ walkMax w a l = cost x) := by
  refine ⟨?_, pred_chain_attains w cost isProto pred rank hproto hlink x⟩
  intro a l ha hl
  have := cost_le_walk_from_prototype w cost hw closure a (hproto a ha) l
  rwa [hl] at this
