/-
The pencil step of property C09 for the k-nearest max-min rule (KNN-supervised / unsupervised `predict`), mechanised.
The per-query assertion discharged on the real code (specs/knn_predict.py, kp_answer) says, for the query at hand
(W t = weight between the query and training position t, a function of the sample and the fitted model alone):
  k_nearest_entries            : nb r < n and dist r = W (nb r)
  tie_k_nearest_lex_ascending  : r < s < k  →  (dist r, nb r) <lex (dist s, nb s)
  tie_outside_lex_after        : t < n outside the buffer  →  (dist (k-1), nb (k-1)) <lex (W t, t)
  density_formula              : g_ps 0 = 0, g_ps (t+1) = g_ps t + E (dist t), density = a fixed map of g_ps k
  winner / tie_winner_is_first_maximiser : w < k maximises val t = min (cost (nb t)) density, and is the first to do so
Here it is shown that these clauses admit AT MOST ONE buffer, one density and one winner - so two evaluations of the
same sample against the same model (whatever the batch, the position, or earlier calls) return the same label.
-/
import Mathlib

/-- (distance, position) lexicographic order on training positions, for a fixed query -/
def lexlt (W : ℕ → ℝ) (t u : ℕ) : Prop := W t < W u ∨ (W t = W u ∧ t < u)

theorem lexlt_irrefl (W : ℕ → ℝ) (t : ℕ) : ¬ lexlt W t t := by
  intro h
  rcases h with h | ⟨_, h⟩
  · exact lt_irrefl _ h
  · exact lt_irrefl _ h

theorem lexlt_trans {W : ℕ → ℝ} {a b c : ℕ} (h1 : lexlt W a b) (h2 : lexlt W b c) : lexlt W a c := by
  rcases h1 with h1 | ⟨e1, l1⟩ <;> rcases h2 with h2 | ⟨e2, l2⟩
  · exact Or.inl (lt_trans h1 h2)
  · exact Or.inl (by rw [← e2]; exact h1)
  · exact Or.inl (by rw [e1]; exact h2)
  · exact Or.inr ⟨e1.trans e2, lt_trans l1 l2⟩

theorem lexlt_total (W : ℕ → ℝ) (a b : ℕ) : lexlt W a b ∨ a = b ∨ lexlt W b a := by
  rcases lt_trichotomy (W a) (W b) with h | h | h
  · exact Or.inl (Or.inl h)
  · rcases lt_trichotomy a b with l | l | l
    · exact Or.inl (Or.inr ⟨h, l⟩)
    · exact Or.inr (Or.inl l)
    · exact Or.inr (Or.inr (Or.inr ⟨h.symm, l⟩))
  · exact Or.inr (Or.inr (Or.inl h))

/-- what the discharged assertion says about the buffer `nb` of a query with weights `W` (n training samples, k slots) -/
structure IsBuf (W : ℕ → ℝ) (n k : ℕ) (nb : ℕ → ℕ) : Prop where
  range : ∀ r, r < k → nb r < n
  asc : ∀ r s, r < s → s < k → lexlt W (nb r) (nb s)
  outside : ∀ t, t < n → (∀ r, r < k → nb r ≠ t) → lexlt W (nb (k - 1)) t

/-- with agreement below r, the r-th entry of one buffer cannot come before the r-th entry of the other -/
theorem not_before {W : ℕ → ℝ} {n k : ℕ} {nb nb' : ℕ → ℕ} (B : IsBuf W n k nb) (B' : IsBuf W n k nb')
    (r : ℕ) (hr : r < k) (agree : ∀ q, q < r → nb q = nb' q) : ¬ lexlt W (nb r) (nb' r) := by
  intro h
  by_cases hex : ∃ s, s < k ∧ nb' s = nb r
  · obtain ⟨s, hs, e⟩ := hex
    rcases lt_trichotomy s r with l | l | l
    · have h1 := B.asc s r l hr
      rw [agree s l, e] at h1
      exact lexlt_irrefl W _ h1
    · rw [l] at e
      rw [e] at h
      exact lexlt_irrefl W _ h
    · have h1 := B'.asc r s l hs
      rw [e] at h1
      exact lexlt_irrefl W _ (lexlt_trans h h1)
  · have hne : ∀ s, s < k → nb' s ≠ nb r := by
      intro s hs e
      exact hex ⟨s, hs, e⟩
    have h1 := B'.outside (nb r) (B.range r hr) hne
    by_cases hl : r = k - 1
    · rw [← hl] at h1
      exact lexlt_irrefl W _ (lexlt_trans h h1)
    · have h2 := B'.asc r (k - 1) (by omega) (by omega)
      exact lexlt_irrefl W _ (lexlt_trans h (lexlt_trans h2 h1))

/-- the clauses admit at most one buffer -/
theorem buffer_unique {W : ℕ → ℝ} {n k : ℕ} {nb nb' : ℕ → ℕ} (B : IsBuf W n k nb) (B' : IsBuf W n k nb') :
    ∀ r, r < k → nb r = nb' r := by
  intro r
  induction r using Nat.strong_induction_on with
  | _ r ih =>
    intro hr
    have agree : ∀ q, q < r → nb q = nb' q := fun q hq => ih q hq (by omega)
    rcases lexlt_total W (nb r) (nb' r) with h | h | h
    · exact absurd h (not_before B B' r hr agree)
    · exact h
    · exact absurd h (not_before B' B r hr (fun q hq => (agree q hq).symm))

/-- the running sum of the density estimate is fixed by the k buffer distances -/
theorem chain_unique (E : ℝ → ℝ) (d d' ps ps' : ℕ → ℝ) (k : ℕ) (h0 : ps 0 = 0) (h0' : ps' 0 = 0)
    (hs : ∀ t, t < k → ps (t + 1) = ps t + E (d t)) (hs' : ∀ t, t < k → ps' (t + 1) = ps' t + E (d' t))
    (hd : ∀ t, t < k → d t = d' t) : ∀ t, t ≤ k → ps t = ps' t := by
  intro t
  induction t with
  | zero => intro _; rw [h0, h0']
  | succ t ih =>
    intro ht
    rw [hs t (by omega), hs' t (by omega), ih (by omega), hd t (by omega)]

/-- w is the first maximiser of val among the first k positions -/
structure IsFirstMax (val : ℕ → ℝ) (k w : ℕ) : Prop where
  lt_k : w < k
  is_max : ∀ t, t < k → val t ≤ val w
  first : ∀ t, t < w → val t < val w

theorem first_max_unique {val : ℕ → ℝ} {k w w' : ℕ} (h : IsFirstMax val k w) (h' : IsFirstMax val k w') : w = w' := by
  rcases lt_trichotomy w w' with l | l | l
  · exact absurd (h'.first w l) (not_lt.mpr (h.is_max w' h'.lt_k))
  · exact l
  · exact absurd (h.first w' l) (not_lt.mpr (h'.is_max w h.lt_k))

/-- C09 for one query: two evaluations of the same sample (same weights W) against the same model (same costs, labels,
    constant, density map `F` of the chain's last value) satisfy the discharged clauses; they return the same label. -/
theorem knn_answer_unique (W cost : ℕ → ℝ) (lab : ℕ → ℕ) (E : ℝ → ℝ) (F : ℝ → ℝ) (n k : ℕ)
    (nb nb' : ℕ → ℕ) (ps ps' : ℕ → ℝ) (dens dens' : ℝ) (w w' : ℕ)
    (B : IsBuf W n k nb) (B' : IsBuf W n k nb')
    (h0 : ps 0 = 0) (h0' : ps' 0 = 0)
    (hs : ∀ t, t < k → ps (t + 1) = ps t + E (W (nb t))) (hs' : ∀ t, t < k → ps' (t + 1) = ps' t + E (W (nb' t)))
    (hdens : dens = F (ps k)) (hdens' : dens' = F (ps' k))
    (hw : IsFirstMax (fun t => min (cost (nb t)) dens) k w)
    (hw' : IsFirstMax (fun t => min (cost (nb' t)) dens') k w') :
    dens = dens' ∧ w = w' ∧ lab (nb w) = lab (nb' w') := by
  have hb := buffer_unique B B'
  have hps : ps k = ps' k :=
    chain_unique E (fun t => W (nb t)) (fun t => W (nb' t)) ps ps' k h0 h0' hs hs'
      (fun t ht => by simp only [hb t ht]) k (le_refl k)
  have hd : dens = dens' := by rw [hdens, hdens', hps]
  have hw2 : IsFirstMax (fun t => min (cost (nb t)) dens) k w' := by
    refine ⟨hw'.lt_k, ?_, ?_⟩
    · intro t ht
      have := hw'.is_max t ht
      simp only [← hd, ← hb t ht, ← hb w' hw'.lt_k] at this
      exact this
    · intro t ht
      have := hw'.first t ht
      simp only [← hd, ← hb t (lt_trans ht hw'.lt_k), ← hb w' hw'.lt_k] at this
      exact this
  have hww : w = w' := first_max_unique hw hw2
  refine ⟨hd, hww, ?_⟩
  rw [← hww, hb w hw.lt_k]
