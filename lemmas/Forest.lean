/-
The pencil step of property C13, mechanised: from the discharged clauses
  C13_roots  : pred x = none → root x = x
  C13_links  : pred x = some p → root x = root p ∧ lab x = lab p
  (acyclic)  : pred x = some p → rank p < rank x        (predecessors were conquered strictly earlier)
it follows that following predecessor links from any sample reaches a sample without predecessor, that this sample
is the recorded root (and the only predecessor-free sample on the chain), and that the sample carries the root's
label / cluster identifier.
-/
import Mathlib

variable {V L : Type}

/-- the sample reached from x after at most k predecessor steps (stops at a sample without predecessor) -/
def climb (pred : V → Option V) : ℕ → V → V
  | 0, x => x
  | k + 1, x => match pred x with
    | none => x
    | some p => climb pred k p

theorem reaches_recorded_root (pred : V → Option V) (root : V → V) (lab : V → L) (rank : V → ℕ)
    (hfix : ∀ x, pred x = none → root x = x)
    (hlink : ∀ x p, pred x = some p → root x = root p ∧ lab x = lab p)
    (hrank : ∀ x p, pred x = some p → rank p < rank x) :
    ∀ x, ∃ k, climb pred k x = root x ∧ pred (root x) = none ∧ lab x = lab (root x) := by
  intro x
  induction h : rank x using Nat.strong_induction_on generalizing x with
  | _ n ih =>
    cases hp : pred x with
    | none =>
      refine ⟨0, ?_, ?_, ?_⟩
      · simp [climb, hfix x hp]
      · rw [hfix x hp]; exact hp
      · rw [hfix x hp]
    | some p =>
      obtain ⟨hr, hl⟩ := hlink x p hp
      obtain ⟨k, hk, hnone, hlab⟩ := ih (rank p) (by have := hrank x p hp; omega) p rfl
      refine ⟨k + 1, ?_, ?_, ?_⟩
      · simp [climb, hp, hk, hr]
      · rw [hr]; exact hnone
      · rw [hl, hlab, hr]

/-- uniqueness: whatever predecessor-free sample the chain from x stops at, it is the recorded root -/
theorem only_one_root (pred : V → Option V) (root : V → V)
    (hfix : ∀ x, pred x = none → root x = x)
    (hlink : ∀ x p, pred x = some p → root x = root p) :
    ∀ k x, pred (climb pred k x) = none → climb pred k x = root x := by
  intro k
  induction k with
  | zero =>
    intro x hx
    simp only [climb] at hx ⊢
    exact (hfix x hx).symm
  | succ k ih =>
    intro x hx
    cases hp : pred x with
    | none =>
      simp only [climb, hp]
      exact (hfix x hp).symm
    | some p =>
      simp only [climb, hp] at hx ⊢
      rw [hlink x p hp]
      exact ih p hx
