/-
Triangle inequalities of the L2-type closed forms of specs/metrics.py, for every vector length n
(the "Minkowski" citations of property C08): euclidean, average_euclidean, matusita, hellinger, log_euclidean.
Checked by `lean lemmas/Minkowski.lean` (Lean 4 + Mathlib, offline); the closed forms are the ones of the sidecar
table (C06 proves that the code computes them).
-/
import Mathlib

open Finset

/-- euclidean: sqrt (Σ (x_i - y_i)^2) -/
theorem euclidean_triangle (n : ℕ) (x y z : Fin n → ℝ) :
    Real.sqrt (∑ i, (x i - z i)^2) ≤ Real.sqrt (∑ i, (x i - y i)^2) + Real.sqrt (∑ i, (y i - z i)^2) := by
  have h := dist_triangle (WithLp.toLp 2 x : EuclideanSpace ℝ (Fin n)) (WithLp.toLp 2 y) (WithLp.toLp 2 z)
  simpa [EuclideanSpace.dist_eq, Real.dist_eq, sq_abs] using h

/-- the same with the squares written as products (the shape of the closed forms) -/
theorem l2_triangle_mul (n : ℕ) (x y z : Fin n → ℝ) :
    Real.sqrt (∑ i, (x i - z i) * (x i - z i)) ≤
      Real.sqrt (∑ i, (x i - y i) * (x i - y i)) + Real.sqrt (∑ i, (y i - z i) * (y i - z i)) := by
  simpa [sq] using euclidean_triangle n x y z

/-- average_euclidean: sqrt ((Σ (x_i - y_i)^2) / n) -/
theorem average_euclidean_triangle (n : ℕ) (x y z : Fin n → ℝ) :
    Real.sqrt ((∑ i, (x i - z i)^2) / n) ≤
      Real.sqrt ((∑ i, (x i - y i)^2) / n) + Real.sqrt ((∑ i, (y i - z i)^2) / n) := by
  have h := euclidean_triangle n x y z
  have hxz : 0 ≤ ∑ i, (x i - z i)^2 := Finset.sum_nonneg (fun i _ => sq_nonneg _)
  have hxy : 0 ≤ ∑ i, (x i - y i)^2 := Finset.sum_nonneg (fun i _ => sq_nonneg _)
  have hyz : 0 ≤ ∑ i, (y i - z i)^2 := Finset.sum_nonneg (fun i _ => sq_nonneg _)
  rw [Real.sqrt_div hxz, Real.sqrt_div hxy, Real.sqrt_div hyz, ← add_div]
  exact div_le_div_of_nonneg_right h (Real.sqrt_nonneg _)

/-- matusita: sqrt (Σ (√a_i - √b_i)(√a_i - √b_i)) -/
theorem matusita_triangle (n : ℕ) (a b c : Fin n → ℝ) :
    Real.sqrt (∑ i, (Real.sqrt (a i) - Real.sqrt (c i)) * (Real.sqrt (a i) - Real.sqrt (c i))) ≤
      Real.sqrt (∑ i, (Real.sqrt (a i) - Real.sqrt (b i)) * (Real.sqrt (a i) - Real.sqrt (b i))) +
      Real.sqrt (∑ i, (Real.sqrt (b i) - Real.sqrt (c i)) * (Real.sqrt (b i) - Real.sqrt (c i))) :=
  l2_triangle_mul n (fun i => Real.sqrt (a i)) (fun i => Real.sqrt (b i)) (fun i => Real.sqrt (c i))

/-- hellinger: sqrt (2 * Σ (√a_i - √b_i)(√a_i - √b_i)) -/
theorem hellinger_triangle (n : ℕ) (a b c : Fin n → ℝ) :
    Real.sqrt (2 * ∑ i, (Real.sqrt (a i) - Real.sqrt (c i)) * (Real.sqrt (a i) - Real.sqrt (c i))) ≤
      Real.sqrt (2 * ∑ i, (Real.sqrt (a i) - Real.sqrt (b i)) * (Real.sqrt (a i) - Real.sqrt (b i))) +
      Real.sqrt (2 * ∑ i, (Real.sqrt (b i) - Real.sqrt (c i)) * (Real.sqrt (b i) - Real.sqrt (c i))) := by
  have h := matusita_triangle n a b c
  have h2 : (0 : ℝ) ≤ 2 := by norm_num
  rw [Real.sqrt_mul h2, Real.sqrt_mul h2, Real.sqrt_mul h2, ← mul_add]
  exact mul_le_mul_of_nonneg_left h (Real.sqrt_nonneg _)

/-- log_euclidean: M * log (sqrt (Σ (x_i - y_i)^2) + 1), M ≥ 0 -/
theorem log_euclidean_triangle (n : ℕ) (M : ℝ) (hM : 0 ≤ M) (x y z : Fin n → ℝ) :
    M * Real.log (Real.sqrt (∑ i, (x i - z i)^2) + 1) ≤
      M * Real.log (Real.sqrt (∑ i, (x i - y i)^2) + 1) + M * Real.log (Real.sqrt (∑ i, (y i - z i)^2) + 1) := by
  have h := euclidean_triangle n x y z
  set dxz := Real.sqrt (∑ i, (x i - z i)^2) with hdxz
  set dxy := Real.sqrt (∑ i, (x i - y i)^2) with hdxy
  set dyz := Real.sqrt (∑ i, (y i - z i)^2) with hdyz
  have p1 : 0 ≤ dxz := Real.sqrt_nonneg _
  have p2 : 0 ≤ dxy := Real.sqrt_nonneg _
  have p3 : 0 ≤ dyz := Real.sqrt_nonneg _
  have key : dxz + 1 ≤ (dxy + 1) * (dyz + 1) := by nlinarith [mul_nonneg p2 p3]
  have hlog : Real.log (dxz + 1) ≤ Real.log (dxy + 1) + Real.log (dyz + 1) := by
    rw [← Real.log_mul (by positivity) (by positivity)]
    exact Real.log_le_log (by positivity) key
  calc M * Real.log (dxz + 1) ≤ M * (Real.log (dxy + 1) + Real.log (dyz + 1)) :=
        mul_le_mul_of_nonneg_left hlog hM
    _ = M * Real.log (dxy + 1) + M * Real.log (dyz + 1) := by ring
