"""debug aid: per-obligation solver times of one item, slowest first:  python -m selftest.times <item> [n]"""
import sys
from pyvc import driver
driver.load_specs()
res = driver.run([sys.argv[1]], jobs=16)
obs = sorted(res[0]["obligations"], key=lambda o: -o["seconds"])
if res[0].get("error"):
    print(res[0]["error"])
for o in obs[:int(sys.argv[2]) if len(sys.argv) > 2 else 15]:
    print("%8.2f %-8s %-10s %s" % (o["seconds"], o["status"], o["solver"], o["name"]))
print(len(obs), "obligations", sum(1 for o in obs if o["status"] == "unsat"), "discharged")
