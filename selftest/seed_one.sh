#!/bin/sh
# usage: seed_one.sh <seed dir name e.g. C15_a> [property]  -> verdict lines of the property's check on a scratch copy
cd /verif
n=$1; p=${2:-${n%_*}}
S=$(mktemp -d /tmp/seedrun_XXXX); mkdir -p $S/repo $S/out
(cd /repo && git archive HEAD) | tar -x -C $S/repo
(cd $S/repo && patch -s -p1 < /verif/seeded/$n/patch.diff) || { echo "patch does not apply"; rm -rf $S; exit 9; }
out=$(VERIF_REPO=$S/repo VERIF_OUT=$S/out ./check $p 2>&1); rc=$?
v=$(echo "$out" | grep -E "^VIOLATION" | head -1 | sed "s#$S/out#<out>#")
fo=$(echo "$out" | grep -E "failed obligation" | head -1 | cut -c1-160)
fi=$(echo "$out" | grep -E "failing input" | head -1 | cut -c1-160)
echo "$n: exit=$rc | $v |$fo |$fi"
rm -rf $S
