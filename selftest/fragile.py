"""debug aid: obligations that needed more than plain E-matching or more than a few seconds (candidates for hints)"""
import sys
from pyvc import driver
from pyvc.contracts import REGISTRY, LEMMAS
driver.load_specs()
names = sys.argv[1:] or (sorted(q for q in REGISTRY if not REGISTRY[q].trusted) + ["lemma:" + k for k in sorted(LEMMAS)])
res = driver.run(names, jobs=16)
rows = []
for r in res:
    if r.get("error"):
        print("ERROR", r["function"], r["error"])
    for o in r["obligations"]:
        if o["status"] != "unsat" or "default" in (o["solver"] or "") or o["seconds"] > 4:
            rows.append((o["seconds"], o["status"], o["solver"], o["name"]))
for row in sorted(rows, reverse=True):
    print("%8.2f %-8s %-28s %s" % row)
