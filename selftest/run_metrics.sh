#!/bin/sh
cd /verif
exec .venv/bin/python -m pyvc.driver registry $(.venv/bin/python -c "import sys; sys.path.insert(0,'/verif'); from specs.metrics import METRICS; print(' '.join('metric:'+k for k in sorted(METRICS)))")
