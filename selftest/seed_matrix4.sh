#!/bin/sh
# like seed_matrix2.sh, but four streams; output: seeded/MATRIX.txt
cd /verif
OUTF=${1:-/verif/seeded/MATRIX.txt}
ls -d seeded/*/ | sed 's#seeded/##; s#/##' > /tmp/seedlist.txt
run_stream() {
  for n in $(awk "NR % 4 == $1" /tmp/seedlist.txt); do sh selftest/seed_one.sh $n | cut -c1-420; done > /tmp/seedstream_$1.txt 2>&1
}
run_stream 0 & run_stream 1 & run_stream 2 & run_stream 3 & wait
sort /tmp/seedstream_0.txt /tmp/seedstream_1.txt /tmp/seedstream_2.txt /tmp/seedstream_3.txt > $OUTF
