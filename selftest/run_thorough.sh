#!/bin/sh
# runs every claimed check at the thorough tier on the current /repo tree; one line per property (exit code, wall time)
cd /verif
git -C /repo status --short | grep -q . && { echo "refusing: /repo has uncommitted changes"; exit 1; }
for p in ${@:-$(.venv/bin/python -c "import sys; sys.path.insert(0,'/verif'); from specs.properties import PROPERTIES; print(' '.join(sorted(PROPERTIES)))")}; do
  t0=$(date +%s)
  out=$(VERIF_OUT=/verif/scratch/thorough_out ./check $p --tier thorough 2>&1); rc=$?
  t1=$(date +%s)
  echo "$p exit=$rc wall=$((t1-t0))s $(echo "$out" | grep -E "obligations discharged|bounded" | tail -1 | cut -c1-150)"
  [ $rc -ne 0 ] && echo "$out" | grep -vE "obligations discharged" | head -8
done
