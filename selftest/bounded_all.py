"""runs only the bounded run-time channel of every property (quick scope) and prints its statistics"""
import importlib, sys, time
sys.path.insert(0, "/verif")
from pyvc import driver
driver.load_specs()
from specs.properties import PROPERTIES
for p in (sys.argv[1:] or sorted(PROPERTIES)):
    modname = PROPERTIES[p].get("bounded")
    if not modname:
        continue
    t = time.time()
    mod = importlib.import_module(modname)
    st, f = mod.explore("quick", p)
    pu = st.get("pre_unmet")
    print("%s %-20s evals=%-6s failure=%s pre_unmet=%s findings=%s  %.1fs" % (
        p, modname, st.get("evaluations"), (str(f)[:300] if f else None), pu, len(st.get("findings", [])), time.time() - t))
