#!/bin/sh
# For every kept seeded change: apply it to a scratch COPY of /repo (outside /repo and /verif), run the check of its own
# property there (VERIF_REPO / VERIF_OUT point at the scratch), record the verdict line, delete the copy.
cd /verif
OUTF=${1:-/verif/seeded/MATRIX.txt}
: > $OUTF
for d in seeded/*/; do
  n=$(basename $d); p=${n%_*}
  S=$(mktemp -d /tmp/seedrun_XXXX)
  mkdir -p $S/repo $S/out
  (cd /repo && git archive HEAD) | tar -x -C $S/repo
  (cd $S/repo && patch -s -p1 < /verif/$d/patch.diff) || { echo "$n: patch does not apply" >> $OUTF; rm -rf $S; continue; }
  out=$(VERIF_REPO=$S/repo VERIF_OUT=$S/out ./check $p 2>&1); rc=$?
  v=$(echo "$out" | grep -E "^VIOLATION" | head -1 | sed "s#$S/out#<out>#")
  fo=$(echo "$out" | grep -E "failed obligation" | head -1 | cut -c1-160)
  fi=$(echo "$out" | grep -E "failing input" | head -1 | cut -c1-160)
  echo "$n: exit=$rc | $v |$fo |$fi" >> $OUTF
  rm -rf $S
done
cat $OUTF
