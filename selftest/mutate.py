"""Development-time mutation protocol (DESIGN 1.8): apply one textual edit to a scratch copy of /repo
(outside /repo and /verif), run a command with VERIF_REPO pointing at it, delete the copy."""
import os, shutil, subprocess, sys, tempfile, json

def run_mutant(file, old, new, cmd, count=1):
    d = tempfile.mkdtemp(prefix="opf_mut_")
    try:
        dst = os.path.join(d, "repo")
        shutil.copytree("/repo", dst, ignore=shutil.ignore_patterns(".git", "__pycache__", "*.log", "docs", "data"))
        p = os.path.join(dst, file)
        s = open(p).read()
        assert s.count(old) >= 1, "pattern not found: %r" % old
        s = s.replace(old, new, count)
        open(p, "w").write(s)
        env = dict(os.environ, VERIF_REPO=dst)
        r = subprocess.run(cmd, shell=True, env=env, capture_output=True, text=True, cwd="/verif")
        return r.returncode, r.stdout + r.stderr
    finally:
        shutil.rmtree(d, ignore_errors=True)

if __name__ == "__main__":
    spec = json.load(open(sys.argv[1]))
    for m in spec:
        rc, out = run_mutant(m["file"], m["old"], m["new"], m["cmd"])
        verdict = "DETECTED" if rc != 0 else "passed"
        ok = (verdict == "DETECTED") == m.get("expect_fail", True)
        print("%s %-9s %s" % ("ok " if ok else "BAD", verdict, m["name"]))
        if not ok or os.environ.get("V"):
            print("\n".join(l[:300] for l in out.splitlines() if "unsat" not in l)[-3000:])
