#!/bin/sh
# usage: confirm_seed.sh <src seed dir containing patch.diff demo.py README.md> <name>
# Confirms in a fresh scratch worktree: demo passes on HEAD, patch applies, test-suite passes with it, demo fails with it.
SRC=$1; NAME=$2
WT=$(mktemp -d /tmp/confirm_XXXX)
git -C /repo worktree add -q --detach $WT/wt HEAD || exit 9
mkdir -p $WT/wt/seed && cp $SRC/demo.py $WT/wt/seed/ && cp $SRC/patch.diff $WT/wt/seed/
cd $WT/wt
PYTHONPATH=$WT/wt timeout 900 /venv/bin/python seed/demo.py >$WT/demo_orig.log 2>&1; D0=$?
git apply seed/patch.diff; AP=$?
PYTHONPATH=$WT/wt timeout 1800 /venv/bin/python -m pytest -q -p no:cacheprovider tests --deselect tests/opfython/models/test_supervised.py::test_supervised_opf_learn >$WT/tests.log 2>&1; T=$?
PYTHONPATH=$WT/wt timeout 900 /venv/bin/python seed/demo.py >$WT/demo_mut.log 2>&1; D1=$?
echo "$NAME: demo_on_original_exit=$D0 apply=$AP tests_with_patch_exit=$T ($(tail -1 $WT/tests.log)) demo_with_patch_exit=$D1 ($(tail -1 $WT/demo_mut.log | cut -c1-150))"
cd /; git -C /repo worktree remove --force $WT/wt; rm -rf $WT
