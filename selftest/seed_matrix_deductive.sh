#!/bin/sh
# how much of the seed detection is due to the deductive part alone? every seed, check run with --no-bounded
cd /verif
ls -d seeded/*/ | sed 's#seeded/##; s#/##' > /tmp/seedlist.txt
one() {
  n=$1; p=${n%_*}
  S=$(mktemp -d /tmp/seedrun_XXXX); mkdir -p $S/repo $S/out
  (cd /repo && git archive HEAD) | tar -x -C $S/repo
  (cd $S/repo && patch -s -p1 < /verif/seeded/$n/patch.diff) || { echo "$n: patch does not apply"; rm -rf $S; return; }
  out=$(VERIF_REPO=$S/repo VERIF_OUT=$S/out ./check $p --no-bounded 2>&1); rc=$?
  v=$(echo "$out" | grep -E "^VIOLATION" | head -1 | sed "s#$S/out#<out>#")
  fo=$(echo "$out" | grep -E "failed obligation" | head -1 | cut -c1-150)
  u=$(echo "$out" | grep -E "^UNDECIDED" | head -1 | cut -c1-150)
  echo "$n: exit=$rc | $v |$fo | $u"
  rm -rf $S
}
run_stream() { for n in $(awk "NR % 2 == $1" /tmp/seedlist.txt); do one $n; done > /tmp/dedstream_$1.txt 2>&1; }
run_stream 0 & run_stream 1 & wait
sort /tmp/dedstream_0.txt /tmp/dedstream_1.txt > ${1:-/verif/seeded/MATRIX_deductive_only.txt}
