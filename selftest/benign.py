"""False-alarm protocol: apply a behaviour-preserving patch to a scratch copy of /repo (outside /repo and /verif), run
the quick check of every property whose file list contains a touched file, and report every exit code.  Expected: exit 0
everywhere (possibly with UNDECIDED / FALLBACK lines), never a VIOLATION.
usage: python -m selftest.benign <patch.diff> [property ...]"""
import os, re, shutil, subprocess, sys, tempfile
sys.path.insert(0, "/verif")
from specs.properties import PROPERTIES

patch = os.path.abspath(sys.argv[1])
touched = set(re.findall(r"^\+\+\+ b/(\S+)", open(patch).read(), flags=re.M))
props = sys.argv[2:] or sorted(p for p, P in PROPERTIES.items() if touched & set(P.get("files", [])))
d = tempfile.mkdtemp(prefix="benign_")
try:
    os.makedirs(d + "/repo"); os.makedirs(d + "/out")
    subprocess.run("cd /repo && git archive HEAD | tar -x -C %s/repo" % d, shell=True, check=True)
    r = subprocess.run("cd %s/repo && patch -s -p1 < %s" % (d, patch), shell=True)
    if r.returncode:
        print("PATCH DOES NOT APPLY", patch); sys.exit(9)
    bad = 0
    for p in props:
        env = dict(os.environ, VERIF_REPO=d + "/repo", VERIF_OUT=d + "/out")
        r = subprocess.run(["./check", p], cwd="/verif", env=env, capture_output=True, text=True)
        lines = [l for l in r.stdout.splitlines() if l.startswith(("VIOLATION", "UNDECIDED", "FALLBACK", "CHECKER", "  failed", "  failing"))]
        print("%s %s exit=%d %s" % (os.path.basename(patch), p, r.returncode, " || ".join(l[:230] for l in lines[:4])))
        sys.stdout.flush()
        bad += r.returncode != 0
    sys.exit(1 if bad else 0)
finally:
    shutil.rmtree(d, ignore_errors=True)
