#!/bin/sh
# runs every claimed check on the current /repo tree (quick tier), prints one line per property
cd /verif
git -C /repo status --short | grep -q . && { echo "refusing: /repo has uncommitted changes"; exit 1; }
for p in $(.venv/bin/python -c "import sys; sys.path.insert(0,'/verif'); from specs.properties import PROPERTIES; print(' '.join(sorted(PROPERTIES)))"); do
  out=$(./check $p 2>&1); rc=$?
  echo "$p exit=$rc $(echo "$out" | grep -E "obligations discharged|bounded" | tail -1 | cut -c1-150)"
  [ $rc -ne 0 ] && echo "$out" | grep -vE "obligations discharged" | head -5
  # on the unchanged tree nothing may be undecided: a FALLBACK here is a regression of the machinery itself
  echo "$out" | grep -E "^(UNDECIDED|FALLBACK)" | head -3 | sed 's/^/   !! /'
done
