"""Hand-written per-property texts for MANIFEST.json."""
META = {
 "C05": {
  "text": "Every function of opfython/core/heap.py is under a sidecar contract (shape, index and order invariants; exact pre/post for insert, remove, update; frame conditions); pyvc generates the verification conditions from the real source on every run and z3 discharges all of them, for all capacities, both policies, all costs and all states satisfying the invariant - hence, by induction over histories, for every operation sequence. Two lemmas needing induction (root is extremal; a full heap has only queued elements, by pigeonhole) are proved by emitted base/step queries. The same contracts are additionally evaluated at run time on the real Heap over an exhaustive closure of small state spaces (bounded channel, used for counterexample replay, never counted as proved).",
  "design_ref": "DESIGN.md §3 C05, §1",
  "note": "Trusted: the VC generator itself, z3, the induction principles (over histories, heap positions, capacity), float comparisons modelled over the reals for NaN-free costs; update() on an already removed element is outside the contract.",
  "technique": "contract-based deductive verification: pyvc AST->VC generator + z3 (all obligations), run-time contract twin for replay",
 },
}
TECH = "contract-based deductive verification: pyvc AST->VC generator + z3 (sidecar contracts, loop invariants, ghost state, induction lemmas); run-time contract twin on the real code for replay / bounded stand-ins"
META["C01"] = {
  "text": "SupervisedOPF.fit, _find_prototypes, Subgraph.__init__/_build (with Node.__init__ and all property setters inlined) and the whole heap are under contract; the Dijkstra-style invariants (monotone removal, Bellman closure over all ordered pairs, predecessor attains max(cost(pred), d), label inherited, conquest order = inverse of a ghost rank, sorted by cost) are inductive and every obligation generated from the real source is discharged by z3 for all training-set sizes, label assignments, tie patterns, both weight sources (metric / pre-computed matrix through idx). The postcondition is the property statement: closure + attainment + acyclicity by strictly earlier predecessor + permutation sorted by cost.",
  "design_ref": "DESIGN.md §3 C01",
  "note": "Trusted: VC generator, z3, float order modelled over reals (only max/compare/copy on costs), weights as uninterpreted DFN/PRE with the statement's hypotheses as preconditions, cardinality lemmas by emitted induction queries; the final step from (closure, attainment along an acyclic predecessor chain) to 'minimum over all walks from a prototype of the largest arc' is the theorem optimum_path_cost of lemmas/OptimumPath.lean (Lean 4 + Mathlib), re-checked by `lean` on every run.",
  "technique": TECH}
META["C02"] = {
  "text": "SupervisedOPF._find_prototypes is under a contract that states Prim's certificate on the real loop, with ghost state only (removal rank and its inverse, a witness arc per prototype, a same-class prototype per removed node): the key of a queued node is its lightest arc to the removed set and pred is the other end; every tree arc was a lightest arc across the cut {removed earlier} | {rest}; prototypes are exactly the endpoints of tree arcs joining different labels; every class met has a prototype. The invariants are inductive and all obligations generated from the real source (heap calls by contract, index safety, frame) are discharged by z3 for all sizes, labelings and tie patterns. Posts: spanning tree rooted at node 0 with rank-decreasing predecessors, cut certificate, prototype <=> boundary endpoint (both directions), a prototype of every class. fit / semi-supervised fit keep each prototype at cost 0, predecessor NIL, own label (proved, C01/C15 invariants).",
  "design_ref": "DESIGN.md §3 C02, §7.2",
  "note": "Cited, not mechanised: the cut property (such a certificate implies a minimum spanning tree, unique for distinct weights; CLRS Thm 23.1). Bounded cross-check (never counted as discharged): real fits on generated graphs with n <= 6 against the boundary-endpoint sets of all minimum spanning trees.",
  "technique": TECH}
META["C03"] = {
  "text": "SupervisedOPF.predict (inherited unchanged by the semi-supervised model) is under contract with ghost witnesses: the scan invariant says min_cost is the minimum of max(cost, d) over the prefix of the conquest order and is attained by the tracked sample; the early exit is justified by sortedness; surjectivity of the order turns the prefix into all training samples. All obligations discharged for every forest satisfying fit's postcondition and every query; no symmetry of the metric is assumed.",
  "design_ref": "DESIGN.md §3 C03",
  "note": "Trusted: as C01; predict's precondition is a sub-conjunction of fit's proven postcondition (C01); termination of mark_nodes not proved.",
  "technique": TECH}
META["C15"] = {
  "text": "SemiSupervisedOPF.fit is under contract with the same invariants as C01 over labelled + unlabeled nodes; the call to _find_prototypes is checked in the state where only labelled nodes exist; the append loop is verified (fresh Node per unlabeled row, Node.__init__ inlined); prototypes are labelled samples and keep their true label; all obligations discharged. The empty-unlabeled clause is a relational obligation decided by mechanical statement alignment of the two real fit bodies (item static:semi_equals_supervised: minus the zero-trip append loop, its counter and the `label` stores, the semi-supervised body is statement-for-statement the supervised one, and nothing that runs afterwards reads what was removed), and is compared on the real code in the run-time channel as well.",
  "design_ref": "DESIGN.md §3 C15, §7.10",
  "note": "Trusted: as C01. The meta-argument of the alignment obligation (same statements on states equal up to unread fields give equal results) is by inspection.",
  "technique": TECH}
META["C13"] = {
  "text": "Both density-clustering routines (UnsupervisedOPF._clustering, KNNSupervisedOPF._clustering) and propagate_labels are under contract; the competition-loop invariants K0-K8 (removed nodes final, predecessor removed earlier and adjacent, cost = min(cost(pred), density) > density - 1, root pointer = root of predecessor and points at a node without predecessor, cost <= cost(root), cluster identifiers in bijection with the removed roots via a ghost map, conquest order = inverse of a ghost rank) are inductive; all obligations generated from the real source (including the symmetrisation loops that edit the adjacency lists, index safety and every property setter) are discharged for all sample sets, k and tie patterns. The postcondition is the property statement; KNN clustering with force_prototype additionally yields every sample its own label (used by C04).",
  "design_ref": "DESIGN.md §3 C13",
  "note": "Trusted: VC generator, z3, heap contracts (C05), float order over the reals, cardinality lemmas; the precondition (what create_arcs/calculate_pdf establish) is C12's business.",
  "technique": TECH}
META["C06"] = {
  "text": "For each of the 47 identifiers the body of the registry entry is symbolically evaluated from the real AST into an outer scalar expression over reductions of pointwise expressions; the closed form of the sidecar table has the same shape. Obligations: pointwise equality of matched summands over the metric's domain, equality of the outer expressions with the reductions as free reals, definedness of every division / log / root, and - as finite obligations discharged by evaluating the literals - registry keys = accepted identifiers = specified identifiers, every key bound to its own function, OPF.__init__ binding distance_fn to the registry entry, the four model constructors passing `distance` through, the wrapper shifting by EPSILON. All discharged (z3 nlsat / static), for every vector length.",
  "design_ref": "DESIGN.md §3 C06",
  "note": "Over the reals (rounding is outside the statement); reductions by their external contract (congruence, homogeneity, additivity); numba trusted to preserve the source semantics.",
  "technique": "contract-based deductive verification: symbolic evaluation of the real numpy bodies (pyvc.vecexpr) against sidecar closed forms, obligations discharged by z3; run-time contract (float interpreter of the same closed forms) on the real jitted functions for replay"}
META["C07"] = {
  "text": "Frame conditions: for the 47 metrics, the decorator wrapper, fit / predict and their helpers in all four models, Subgraph/Node construction, get_distances and pre_compute_distance, no parameter other than `self` (and no attribute-held alias of caller data: features, pre_distances) may be mutated - decided for all inputs and call histories by a conservative may-mutate inference over the real source with a fix-point over the call graph (209 obligations). `reads` obligations: no global state or RNG in those functions, and - one z3 non-interference obligation per metric (items metricreads:<id>, from the symbolic evaluation of the real metric body) - no metric value observes uninitialised memory (np.empty is an unknown vector; the value must be the same for any two contents). The run-time channel compares caller arrays byte for byte, repeats evaluations / fits, re-uses argument buffers and re-evaluates pairs that share coordinates after unrelated evaluations.",
  "design_ref": "DESIGN.md §3 C07",
  "note": "Static back end (no solver); external libraries assumed not to mutate their arguments; dtype-level effects (integer arrays) outside the model.",
  "technique": "contract-based verification of frame conditions: syntactic effect inference over the real AST (modifies-clauses checked by fix-point), z3 non-interference obligations for uninitialised memory in the metric bodies, run-time byte comparison as bounded twin"}
META["C08"] = {
  "text": "Definedness on the domain and agreement with the closed form are proved (C06 obligations). On top of the closed forms, symmetry, non-negativity and zero self-distance of every metric the fixed axiom table marks, and the triangle inequality of the seven metrics whose summand satisfies it pointwise, are discharged as z3 lemmas for every vector length; the Minkowski-type triangle inequalities of euclidean, average_euclidean, matusita, hellinger and log_euclidean are proved for every vector length in Lean 4 + Mathlib (lemmas/Minkowski.lean, re-checked by `lean` on every run). Finiteness in floating point, the Soergel triangle inequality (cited) and a second pass over the whole table on the compiled functions are bounded run-time contracts.",
  "design_ref": "DESIGN.md §3 C08, §7",
  "note": "Level `other`: proved / cited / bounded clauses itemised in the evidence; log and sqrt by assumed properties; reductions by their external contract.",
  "technique": "deductive lemmas over the closed forms (pyvc.vecexpr + z3; five Minkowski-type inequalities in Lean 4 + Mathlib) on top of the C06 equalities; bounded run-time contracts for float finiteness and the cited inequality"}
META["C12"] = {
  "text": "KNNSubgraph.create_arcs, calculate_pdf, eliminate_maxima_height and Subgraph.destroy_arcs are under contract. create_arcs: the insertion-scan invariant (buffer sorted, filler slots at FLOAT_MAX, every buffer entry an offered sample with its weight, a ghost slot map locating every offered sample either in the buffer or - when the buffer is full - at least as far as the last entry), the bubble invariant relative to the snapshot at the start of the insertion, and the descending collection loop give the statement for every sample: exactly min(k, n-1) distinct other samples, ascending distances, nobody outside closer than the farthest neighbour, radius, per-rank maxima and density bound exact (upper bound + ghost witness), 1e-5 fallback. calculate_pdf: estimate = PSUM/(k+1) with PSUM a ghost function defined by primitive recursion, min/max with witnesses, affine map onto [1, MAX_DENSITY], cost = density - 1, constant = 2/9 of the bound. All 600+ obligations discharged by z3 for all n, k (also k > n-1), tie patterns, both weight sources.",
  "design_ref": "DESIGN.md §3 C12",
  "note": "Over the reals with exp uninterpreted (positivity and exp(u) <= 1 for u <= 0 assumed); index arrays modelled as integers; fresh arcs and a positive density bound are preconditions taken from the statement.",
  "technique": TECH}
META["C14"] = {
  "text": "KNNSupervisedOPF.predict and UnsupervisedOPF.predict are under contract. The k-nearest scan carries the same buffer / slot-map / bubble invariants as arc creation with 'offered = ALL training samples below j' (no sample is skipped), the density loop carries a ghost partial-sum chain, the choice loop tracks the first maximiser of min(cost(neighbour), density). At the end of every iteration of the query loop the statement is asserted for the query just processed (k distinct training samples with their distances, ascending, nobody outside closer than the k-th; density from those k distances with the stored constant and range; label and cluster of a maximiser) and discharged, for every fitted model satisfying `fitted`, every query and k.",
  "design_ref": "DESIGN.md §3 C14",
  "note": "In-line assertion per query (not a postcondition over the returned list); exp uninterpreted; index arrays as integers; `fitted` precondition established by C12/C16 contracts.",
  "technique": TECH}
META["C16"] = {
  "text": "KNNSupervisedOPF._learn / fit and UnsupervisedOPF._best_minimum_cut / _normalized_cut / fit are under contract together with everything they call (create_arcs, calculate_pdf, both _clustering routines, predict, destroy_arcs, KNNSubgraph construction): call-site preconditions of all of them are obligations. The selection loops carry ghost sequences of the criterion values; the postconditions state that subgraph.best_k is the smallest candidate attaining the best value among those evaluated (cuts: a prefix of min_k..max_k that stops early only after a cut of exactly 0) and that the final graph / clustering is built with it; definedness of the local best_k is an obligation. All discharged.",
  "design_ref": "DESIGN.md §3 C16",
  "note": "opf_accuracy assumed to return a real in [0,1] (its body is C20); unsupervised selection verified for duplicate-free data (note N3); k ranges within 1..n-1.",
  "technique": TECH}
META["C04"] = {
  "text": "KNN half proved: postcondition of KNNSupervisedOPF.fit says every training sample carries its own label, for all data, ties, max_k (via the forced-prototype invariant of _clustering). Supervised half: reduced by C01-C03 to the cited zero-resubstitution theorem of Papa-Falcao-Suzuki; decided here by a bounded run-time contract over tie-free weight orders (exhaustive for n = 4 in the thorough tier) and generic data with every qualifying metric.",
  "design_ref": "DESIGN.md §3 C04",
  "note": "Level `other`: proved / cited / bounded parts are itemised in the evidence; bounded results are never counted as discharged.",
  "technique": TECH}
META["C09"] = {
  "text": "Proved: frame obligations of all predict methods (KNN-supervised and unsupervised predict modify no model state at all; supervised predict only relevance flags, which it never reads), the per-sample characterisations C03/C14 for an arbitrary loop position, the absence of global state / RNG reads (and of reads of uninitialised memory in the metrics), and a FUNCTIONAL characterisation of the answer for both predict families: supervised / semi-supervised - label of the first minimiser of max(cost, distance) in conquest order (ghost winner position), from which the relational postcondition `position_independent` is discharged by z3; KNN-supervised / unsupervised - the k-NN buffer is strictly ascending in the lexicographic order on (distance, training position), every sample outside comes after its last entry, the density is the chain over those k distances, the winner is the first maximiser of min(cost, density) (loop invariants tie_stable / tie_outside_after / tie_shifted_strict / tie_first_so_far and the per-query assertion, all discharged by z3), and lemmas/KNearest.lean (Lean 4 + Mathlib, re-checked on every run) proves that these clauses admit at most one buffer, one density and one winner, hence one label / cluster per (model, sample) whatever the batch, position or earlier calls. A relational run-time contract (same sample alone, at every batch position, with duplicates, after earlier calls, all four model kinds) is kept as replay vehicle and fallback.",
  "design_ref": "DESIGN.md §3 C09, §7.10",
  "note": "The step from the per-query statement to 'every call returns this function' is frame + purity (pencil). The contracts fix the tie policies of the code (first minimiser; stable buffer + first maximiser): another deterministic policy would be reported although C09 would still hold (documented over-strictness).",
  "technique": TECH + "; uniqueness lemma in Lean 4 + Mathlib"}
META["C20"] = {
  "text": "confusion_matrix, opf_accuracy, opf_accuracy_per_label and purity are under contract with recursive spec counters (pairs, false positives, false negatives, class and group sizes) and a recursively DEFINED real sum; loop invariants equate the accumulators with the counters, the vector statements go through assumed numpy contracts, and eight lemmas proved by emitted induction queries (counter bounds, pair counter vs. group size with equality iff the group is pure, group sizes add up to N by a double induction, monotonicity and zero test of sums) give the rest: the accuracy formula, its range [0, 1] and 'equals 1 iff all predictions are correct' are discharged for every K >= 2 and every length; recall, the purity formula, purity in (0, 1] and 'purity = 1 iff every predicted group is single-class' for every K. normalize is a static shape obligation. K = 1 for opf_accuracy and numeric normalize values are bounded run-time contracts against brute-force definitions.",
  "design_ref": "DESIGN.md §3 C20, §7",
  "note": "Over the reals. Assumed external numpy contracts (listed in the evidence): np.max, np.bincount, np.unique, np.nansum without NaN, np.sum = mathematical sum, numpy broadcasting for normalize.",
  "technique": TECH}
META["C17"] = {
  "text": "Relevance marking and pruning are under contract and discharged: mark_nodes flags exactly the predecessor chain of its argument (and terminates, using the rank witness of fit's postcondition); predict passes the conqueror of each query to it; prune's selection loops retain exactly the non-IRRELEVANT samples with their own labels, and the final training set / model rows are an increasing re-indexing of the original arrays. `learn` is an open known finding (TypeError on the first validation error), listed in known_findings.json with its witness; the check prints KNOWN-FINDING for it and would report any other failure.",
  "design_ref": "DESIGN.md §3 C17, §4",
  "note": "Level `other`: learn's clauses cannot be checked beyond the known finding; prune's callee facts are assumed at its call sites because prune does not establish fit's >= 2 classes precondition.",
  "technique": TECH}
META["C10"] = {
  "text": "Loop contracts of pre_compute_distance and get_distances (matrix entry = metric on the ordered pair, delimiter by extension) and Subgraph._build (identifier / features of node t) are discharged; the 10 weight-read sites of the models are checked as finite AST obligations (same nodes, same order in both arms; no stray read); the file round trip is an assumed external contract exercised end to end by the bounded channel on real .txt/.csv files with symmetric and asymmetric metrics. The semi-supervised positional-identifier gap is an open known finding (F8).",
  "design_ref": "DESIGN.md §3 C10, §4",
  "note": "Level `other`: file I/O is an assumed external contract; one open known finding.",
  "technique": TECH + "; static AST obligations for the weight-read sites"}
META["C18"] = {
  "text": "split, split_with_index and merge are under contract (numpy permutation / fancy indexing / stacking by assumed contracts): sizes, per-row provenance through a seed-determined bijection, own labels and indices, agreement of the two split functions, concatenation order of merge - all discharged. The conversion / loading / parsing chain is file I/O through struct, numpy text and json, i.e. external contracts: decided by a bounded run-time contract that writes OPF binaries, converts them with the real functions, loads and parses all three formats and compares identifiers, exact float32 features and shifted labels, and checks the rejection of non-sequential labels.",
  "design_ref": "DESIGN.md §3 C18",
  "note": "Level `other`: I/O half bounded.",
  "technique": TECH}
META["C19"] = {
  "text": "Bounded run-time contract load(save(m)) = m: full node / subgraph / model state, the bound metric and predictions on a probe batch coincide, the original is unchanged - 4 model kinds x metrics x {on-the-fly, pre-computed}; plus static obligations on the bodies of save / load and the absence of pickling hooks. Contracts cannot say more: the content of the property is pickle's behaviour.",
  "design_ref": "DESIGN.md §3 C19",
  "note": "Level `exploration` (bounded), as announced in DESIGN: the deductive part is only the frame of save/load.",
  "technique": "bounded run-time contract (deal/icontract style) on the real save/load; static frame obligations"}
META["C11"] = {
  "text": "Rescaling half: order-only discipline of every function between the weights and the results (AST obligations), monotonicity of the five closed forms in the sum of squares (z3), and the C06 equalities of those five identifiers; the step from the discipline to equivariance is a pencil meta-argument. Permutation half: bounded relational run-time contract on tie-free data.",
  "design_ref": "DESIGN.md §3 C11",
  "note": "Level `other`: the relational lockstep proof announced in DESIGN was replaced by the order-only discipline check; permutation invariance is bounded (cited lemmas).",
  "technique": "static order-only (taint) obligations + z3 monotonicity lemmas + bounded relational run-time contract"}
ALL = ["C%02d" % i for i in range(1, 21)]
NOT_APPLICABLE = []
def _na():
    from specs.properties import PROPERTIES
    out = []
    for pid in ALL:
        if pid not in PROPERTIES:
            out.append({"property_id": pid, "reason": "not yet reached in the build order of DESIGN.md §6 at this commit (work in progress, not a judgement of inapplicability)"})
    return out
NOT_APPLICABLE = _na()
