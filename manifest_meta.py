"""Hand-written per-property texts for MANIFEST.json."""
META = {
 "C05": {
  "text": "Every function of opfython/core/heap.py is under a sidecar contract (shape, index and order invariants; exact pre/post for insert, remove, update; frame conditions); pyvc generates the verification conditions from the real source on every run and z3 discharges all of them, for all capacities, both policies, all costs and all states satisfying the invariant - hence, by induction over histories, for every operation sequence. Two lemmas needing induction (root is extremal; a full heap has only queued elements, by pigeonhole) are proved by emitted base/step queries. The same contracts are additionally evaluated at run time on the real Heap over an exhaustive closure of small state spaces (bounded channel, used for counterexample replay, never counted as proved).",
  "design_ref": "DESIGN.md §3 C05, §1",
  "note": "Trusted: the VC generator itself, z3, the induction principles (over histories, heap positions, capacity), float comparisons modelled over the reals for NaN-free costs; update() on an already removed element is outside the contract.",
  "technique": "contract-based deductive verification: pyvc AST->VC generator + z3 (all obligations), run-time contract twin for replay",
 },
}
ALL = ["C%02d" % i for i in range(1, 21)]
NOT_APPLICABLE = []
def _na():
    from specs.properties import PROPERTIES
    out = []
    for pid in ALL:
        if pid not in PROPERTIES:
            out.append({"property_id": pid, "reason": "not yet reached in the build order of DESIGN.md §6 at this commit (work in progress, not a judgement of inapplicability)"})
    return out
NOT_APPLICABLE = _na()
