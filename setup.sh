#!/bin/sh
# Builds /verif/.venv offline: python 3.12 (the interpreter behind /venv) + z3/cvc5/jsonschema wheels
# from /opt/veriftools/wheels, plus a .pth that exposes /venv's site-packages (numpy, numba, opfython -> /repo).
set -e
cd "$(dirname "$0")"
if [ -x .venv/bin/python ] && .venv/bin/python -c "import z3, numpy, opfython, jsonschema" 2>/dev/null; then
  exit 0
fi
rm -rf .venv
BASE=$(/venv/bin/python -c "import sys; print(sys.base_prefix)")
"$BASE/bin/python3" -m venv .venv
PIP_NO_INDEX=1 .venv/bin/python -m pip install -q --no-index --find-links /opt/veriftools/wheels z3-solver cvc5 jsonschema deal icontract >/dev/null
SP=$(.venv/bin/python -c "import site; print(site.getsitepackages()[0])")
echo "import site; site.addsitedir('/venv/lib/python3.12/site-packages')" > "$SP/zz_venv_overlay.pth"
.venv/bin/python -c "import z3, numpy, opfython, jsonschema; print('setup ok', z3.get_version_string(), numpy.__version__)"
